(* END-TO-END equivalence theorems for
     C02 ("all documented spellings of an option occurrence are interchangeable") and
     C13 ("an INI entry means the same as the corresponding command-line flag"),
   built on DenoteSpec.C01_loop_is_fold: the argument loop IS the fold of Option.Set
   over the occurrences its tokens spell. *)
From GoFlags Require Import Base.Str Base.Utf8 Golib.Strings Golib.Strconv
     Model.Types Model.Tag Model.Scan Model.Lookup Model.Convert Model.State Model.Help Model.Parse
     Model.Ini
     Proofs.LookupSpec Proofs.FrameBase Proofs.ValueSpec Proofs.SpellSpec Proofs.ContextSpec
     Proofs.DenoteSpec Proofs.IniSpec.
From Coq Require Import Lia ZifyN ZifyNat ZifyBool.
Open Scope N_scope.

(* ================================================================== *)
(* A. C02: interchangeable spellings, end to end                       *)
(* ================================================================== *)

(* ---- the fold: general composition, uniqueness of the first error ---- *)
Section FoldFacts.
  Variable orc : oracles.
  Variable delim : str.
  Variable ht : rt -> str.

  Local Notation oset := (opt_set orc delim ht).
  Local Notation fold := (denote orc delim ht).

  Lemma denote_app : forall pre post r,
    fold (pre ++ post) r =
    bind (fold pre r) (fun re => match snd re with
                                 | Some e => Ok (fst re, Some e)
                                 | None => fold post (fst re)
                                 end).
  Proof.
    induction pre as [|[oc a] pre IH]; intros post r.
    - reflexivity.
    - change (((oc, a) :: pre) ++ post) with ((oc, a) :: (pre ++ post)).
      rewrite !denote_cons.
      destruct (oset oc a r) as [[r1 [e|]]|e|w]; cbn [bind fst snd]; try reflexivity.
      apply IH.
  Qed.

  (* the failing occurrence of a fold is the FIRST one whose Option.Set reports an error;
     it is determined by the occurrence list and the initial state alone *)
  Lemma denote_first_error_unique :
    forall pre1 oc1 a1 post1 pre2 oc2 a2 post2 r r1 r2 r1' r2' e1 e2,
    pre1 ++ (oc1, a1) :: post1 = pre2 ++ (oc2, a2) :: post2 ->
    fold pre1 r = Ok (r1, None) -> oset oc1 a1 r1 = Ok (r1', Some e1) ->
    fold pre2 r = Ok (r2, None) -> oset oc2 a2 r2 = Ok (r2', Some e2) ->
    pre1 = pre2 /\ oc1 = oc2 /\ a1 = a2 /\ post1 = post2 /\ r1 = r2 /\ r1' = r2' /\ e1 = e2.
  Proof.
    induction pre1 as [|[ocx ax] pre1 IH]; intros oc1 a1 post1 pre2 oc2 a2 post2 r r1 r2 r1' r2' e1 e2 E D1 S1 D2 S2.
    - rewrite denote_nil in D1. injection D1 as <-.
      destruct pre2 as [|[ocy ay] pre2].
      + rewrite denote_nil in D2. injection D2 as <-.
        cbn [app] in E. injection E as <- <- <-.
        rewrite S1 in S2. injection S2 as <- <-. repeat split.
      + exfalso. cbn [app] in E. injection E as <- <- _.
        destruct (denote_cons_ok orc delim ht _ _ _ _ _ D2) as (rx & Hx & _).
        rewrite S1 in Hx. discriminate Hx.
    - destruct pre2 as [|[ocy ay] pre2].
      + exfalso. rewrite denote_nil in D2. injection D2 as <-.
        cbn [app] in E. injection E as -> -> _.
        destruct (denote_cons_ok orc delim ht _ _ _ _ _ D1) as (rx & Hx & _).
        rewrite S2 in Hx. discriminate Hx.
      + change (((ocx, ax) :: pre1) ++ (oc1, a1) :: post1) with ((ocx, ax) :: (pre1 ++ (oc1, a1) :: post1)) in E.
        change (((ocy, ay) :: pre2) ++ (oc2, a2) :: post2) with ((ocy, ay) :: (pre2 ++ (oc2, a2) :: post2)) in E.
        injection E as <- <- E.
        destruct (denote_cons_ok orc delim ht _ _ _ _ _ D1) as (rx & Hx & D1').
        destruct (denote_cons_ok orc delim ht _ _ _ _ _ D2) as (ry & Hy & D2').
        rewrite Hx in Hy. injection Hy as <-.
        destruct (IH _ _ _ _ _ _ _ _ _ _ _ _ _ _ E D1' S1 D2' S2) as (-> & A & B & C & D & F & G).
        repeat split; assumption.
  Qed.
End FoldFacts.

(* ---- spellings compose ---- *)
Lemma spells_app lk : forall toks1 occs1 toks2 occs2,
  spells lk toks1 occs1 -> spells lk toks2 occs2 -> spells lk (toks1 ++ toks2) (occs1 ++ occs2).
Proof.
  intros toks1 occs1 toks2 occs2 H1 H2.
  induction H1 as [|ts o toks occs Hs _ IH]; [exact H2|].
  rewrite <- app_assoc. change ((o :: occs) ++ occs2) with (o :: (occs ++ occs2)).
  constructor; assumption.
Qed.

Lemma spells_one lk ts o : spell1 lk ts o -> spells lk ts [o].
Proof.
  intros H. rewrite <- (app_nil_r ts). constructor; [exact H|constructor].
Qed.

Section SameOutcome.
  Variable cfg : pconfig.
  Variable orc : oracles.
  Variable root : command.
  Variable ht : rt -> str.

  Local Notation ploop := (run_loop cfg orc root ht).
  Local Notation oset := (opt_set orc (pc_nsdelim cfg) ht).
  Local Notation fold := (denote orc (pc_nsdelim cfg) ht).

  (* "the same outcome": the results [l1], [l2] of two runs of the argument loop started in
     the parser state [s1] and a parser state equal to it up to the pending tokens and the last
     popped token, and in the runtime state [r],
     on two spellings of the occurrence list [occs] *)
  Definition same_outcome (lk : lookup) (occs : list occ) (r : rt) (s1 : pst)
             (l1 l2 : res (pst * rt)) : Prop :=
    match l1, l2 with
    | Ok (s1', r1'), Ok (s2', r2') =>
      (* the same runtime state: every value, every bookkeeping flag, every log *)
      r1' = r2' /\
      (* the final parser states agree on everything except the last popped token (ps_arg)
         and - in the error case - the pending tokens; nothing but the recorded error and the
         pending tokens changed with respect to the initial parser state *)
      ps_ret s1' = ps_ret s2' /\ ps_pos s1' = ps_pos s2' /\ ps_err s1' = ps_err s2' /\
      ps_cmd s1' = ps_cmd s2' /\ ps_lk s1' = ps_lk s2' /\
      ps_ret s1' = ps_ret s1 /\ ps_pos s1' = ps_pos s1 /\ ps_cmd s1' = ps_cmd s1 /\ ps_lk s1' = ps_lk s1 /\
      ( (* either every occurrence was set: the state is the fold, no token is pending, no
           error was recorded *)
        (fold occs r = Ok (r1', None) /\ ps_args s1' = [] /\ ps_args s2' = [] /\ ps_err s1' = ps_err s1)
        \/
        (* or Option.Set failed on the (same) first failing occurrence: the same wrapped error
           is recorded and the pending tokens are the respective spellings of the SAME
           remaining occurrences *)
        (exists pre oc a post rm e,
            occs = pre ++ (oc, a) :: post /\ fold pre r = Ok (rm, None) /\
            oset oc a rm = Ok (r1', Some e) /\ fold occs r = Ok (r1', Some e) /\
            ps_err s1' = Some (wrap_marshal cfg oc e) /\
            spells lk (ps_args s1') post /\ spells lk (ps_args s2') post) )
    | Err e1, Err e2 => e1 = e2 /\ fold occs r = Err e1
    | Panic w1, Panic w2 => w1 = w2 /\ fold occs r = Panic w1
    | _, _ => False
    end.

  (* two loop results related (by loop_rel) to the same fold have the same outcome *)
  Lemma loop_rel_same_outcome : forall lk toks1 toks2 occs r s1 s2 l1 l2,
    ps_sim s1 s2 -> ps_lk s1 = lk ->
    loop_rel cfg orc ht lk s1 toks1 occs r (fold occs r) l1 ->
    loop_rel cfg orc ht lk s2 toks2 occs r (fold occs r) l2 ->
    same_outcome lk occs r s1 l1 l2.
  Proof.
    intros lk toks1 toks2 occs r s1 s2 l1 l2 (Sret & Spos & Serr & Scmd & Slk) Hlk L1 L2.
    destruct (fold occs r) as [[r' [e|]]|e|w] eqn:Ed; cbn [loop_rel] in L1, L2.
    - destruct L1 as (s1' & ta1 & ts1 & tb1 & pre1 & oc1 & a1 & post1 & rm1 & -> & _ & Eo1 & _ & _ & Sp1 &
                      D1 & O1 & Herr1 & Ha1 & _ & Hret1 & Hpos1 & Hcmd1 & Hlk1).
      destruct L2 as (s2' & ta2 & ts2 & tb2 & pre2 & oc2 & a2 & post2 & rm2 & -> & _ & Eo2 & _ & _ & Sp2 &
                      D2 & O2 & Herr2 & Ha2 & _ & Hret2 & Hpos2 & Hcmd2 & Hlk2).
      assert (E : pre1 ++ (oc1, a1) :: post1 = pre2 ++ (oc2, a2) :: post2) by congruence.
      destruct (denote_first_error_unique orc (pc_nsdelim cfg) ht _ _ _ _ _ _ _ _ _ _ _ _ _ _ _ E D1 O1 D2 O2)
        as (<- & <- & <- & <- & <- & _ & _).
      cbn [same_outcome].
      split; [reflexivity|]. split; [congruence|]. split; [congruence|]. split; [congruence|].
      split; [congruence|]. split; [congruence|].
      split; [exact Hret1|]. split; [exact Hpos1|]. split; [exact Hcmd1|]. split; [exact Hlk1|].
      right. exists pre1, oc1, a1, post1, rm1, e.
      split; [exact Eo1|]. split; [exact D1|]. split; [exact O1|]. split; [first [exact Ed|reflexivity]|].
      split; [exact Herr1|]. rewrite Ha1, Ha2. split; assumption.
    - destruct L1 as (s1' & -> & Pa1 & _ & Pret1 & Ppos1 & Perr1 & Pcmd1 & Plk1).
      destruct L2 as (s2' & -> & Pa2 & _ & Pret2 & Ppos2 & Perr2 & Pcmd2 & Plk2).
      cbn [same_outcome].
      split; [reflexivity|]. split; [congruence|]. split; [congruence|]. split; [congruence|].
      split; [congruence|]. split; [congruence|].
      split; [exact Pret1|]. split; [exact Ppos1|]. split; [exact Pcmd1|]. split; [exact Plk1|].
      left. split; [first [exact Ed|reflexivity]|]. repeat split; assumption.
    - subst l1 l2. cbn [same_outcome]. split; [reflexivity|exact Ed].
    - subst l1 l2. cbn [same_outcome]. split; [reflexivity|exact Ed].
  Qed.

  (* ---------------------------------------------------------------- *)
  (* 1. same occurrences, same outcome                                 *)
  (* ---------------------------------------------------------------- *)
  Theorem C02_same_occurrences_same_outcome :
    forall (lk : lookup) (toks1 toks2 : list str) (occs : list occ),
    spells lk toks1 occs -> spells lk toks2 occs ->
    forall (fuel1 fuel2 : nat) (s1 s2 : pst) (r : rt),
    ps_lk s1 = lk -> ps_lk s2 = lk ->
    ps_ret s1 = ps_ret s2 -> ps_pos s1 = ps_pos s2 -> ps_err s1 = ps_err s2 -> ps_cmd s1 = ps_cmd s2 ->
    ps_args s1 = toks1 -> ps_args s2 = toks2 ->
    (length toks1 < fuel1)%nat -> (length toks2 < fuel2)%nat ->
    same_outcome lk occs r s1 (ploop fuel1 s1 r) (ploop fuel2 s2 r).
  Proof.
    intros lk toks1 toks2 occs Sp1 Sp2 fuel1 fuel2 s1 s2 r Hlk1 Hlk2 Hret Hpos Herr Hcmd Ha1 Ha2 Hf1 Hf2.
    apply (loop_rel_same_outcome lk toks1 toks2 occs r s1 s2).
    - repeat split; congruence.
    - exact Hlk1.
    - exact (C01_loop_is_fold cfg orc root ht lk toks1 occs Sp1 fuel1 s1 r Hlk1 Ha1 Hf1).
    - exact (C01_loop_is_fold cfg orc root ht lk toks2 occs Sp2 fuel2 s2 r Hlk2 Ha2 Hf2).
  Qed.

  (* ---------------------------------------------------------------- *)
  (* 2. swapping one spelling inside a context                         *)
  (* ---------------------------------------------------------------- *)
  Theorem C02_spelling_swap :
    forall (lk : lookup) (pre post ts1 ts2 : list str) (o : occ) (occs_pre occs_post : list occ),
    spell1 lk ts1 o -> spell1 lk ts2 o ->
    spells lk pre occs_pre -> spells lk post occs_post ->
    forall (fuel1 fuel2 : nat) (s1 s2 : pst) (r : rt),
    ps_lk s1 = lk -> ps_lk s2 = lk ->
    ps_ret s1 = ps_ret s2 -> ps_pos s1 = ps_pos s2 -> ps_err s1 = ps_err s2 -> ps_cmd s1 = ps_cmd s2 ->
    ps_args s1 = pre ++ ts1 ++ post -> ps_args s2 = pre ++ ts2 ++ post ->
    (length (pre ++ ts1 ++ post) < fuel1)%nat -> (length (pre ++ ts2 ++ post) < fuel2)%nat ->
    same_outcome lk (occs_pre ++ o :: occs_post) r s1 (ploop fuel1 s1 r) (ploop fuel2 s2 r).
  Proof.
    intros lk pre post ts1 ts2 o occs_pre occs_post H1 H2 Hpre Hpost fuel1 fuel2 s1 s2 r.
    apply C02_same_occurrences_same_outcome.
    - apply spells_app; [exact Hpre|]. constructor; assumption.
    - apply spells_app; [exact Hpre|]. constructor; assumption.
  Qed.
End SameOutcome.

(* ---------------------------------------------------------------- *)
(* 3. a cluster of flags  -abc  versus  -a -b -c                     *)
(* ---------------------------------------------------------------- *)

(* [c] is the short name of the flag [oc] (an option that takes no argument) *)
Definition cluster_flag (lk : lookup) (c : N) (oc : octx) : Prop :=
  valid_rune c = true /\ c <> 45 /\
  find_last (lk_short lk) (encode_rune c) = Some oc /\ can_argument (oc_opt oc) = false.

(* the single token -abc, the separate tokens -a -b -c, the occurrences they denote *)
Definition cluster_tok (cs : list N) : str := 45 :: concat (map encode_rune cs).
Definition sep_toks (cs : list N) : list str := map (fun c => 45 :: encode_rune c) cs.
Definition flag_occs (ocs : list octx) : list occ := map (fun oc => (oc, @None str)) ocs.

Lemma flag_occs_app a b : flag_occs (a ++ b) = flag_occs a ++ flag_occs b.
Proof. apply map_app. Qed.

Lemma flag_occs_inj : forall a b, flag_occs a = flag_occs b -> a = b.
Proof.
  induction a as [|x a IH]; intros [|y b] H; try discriminate H; [reflexivity|].
  cbn [flag_occs map] in H. injection H as -> H. f_equal. apply IH. exact H.
Qed.

(* the separate tokens spell the flag occurrences *)
Lemma sep_toks_spell lk : forall cs ocs, Forall2 (cluster_flag lk) cs ocs ->
  spells lk (sep_toks cs) (flag_occs ocs).
Proof.
  induction 1 as [|c oc cs ocs (Hv & H45 & Hf & Hc) _ IH]; [constructor|].
  cbn [sep_toks flag_occs map].
  apply (spells_cons lk [45 :: encode_rune c] (oc, None)); [|exact IH].
  apply sp_short_flag; assumption.
Qed.

(* positions of range-over-string on a concatenation of encoded runes *)
Fixpoint rune_pos (off : nat) (cs : list N) : list (nat * N * nat) :=
  match cs with
  | [] => []
  | c :: cs' => (off, c, length (encode_rune c)) :: rune_pos (off + length (encode_rune c)) cs'
  end.

Lemma range_fuel_step f off b t :
  range_fuel (S f) off (b :: t) =
  (off, fst (decode_rune (b :: t)), snd (decode_rune (b :: t))) ::
  range_fuel f (off + snd (decode_rune (b :: t)))%nat (skipn (snd (decode_rune (b :: t))) (b :: t)).
Proof. cbn [range_fuel]. destruct (decode_rune (b :: t)) as [c w]. reflexivity. Qed.

Lemma range_fuel_runes : forall cs fuel off,
  Forall (fun c => valid_rune c = true) cs ->
  (length (concat (map encode_rune cs)) <= fuel)%nat ->
  range_fuel fuel off (concat (map encode_rune cs)) = rune_pos off cs.
Proof.
  induction cs as [|c cs IH]; intros fuel off Hv Hf.
  - cbn [map concat rune_pos]. apply range_fuel_nil.
  - inversion Hv as [|? ? Hc Hv']; subst.
    cbn [map concat rune_pos]. cbn [map concat] in Hf. rewrite app_length in Hf.
    pose proof (valid_rune_enc c Hc) as R.
    pose proof (re_dec _ _ R (concat (map encode_rune cs))) as D.
    pose proof (re_ne _ _ R) as Hne.
    destruct (encode_rune c) as [|b t] eqn:Ex; [congruence|].
    destruct fuel as [|f]; [cbn [length] in Hf; lia|].
    change ((b :: t) ++ concat (map encode_rune cs)) with (b :: (t ++ concat (map encode_rune cs))) in *.
    rewrite range_fuel_step, D. cbn [fst snd].
    change (b :: (t ++ concat (map encode_rune cs))) with ((b :: t) ++ concat (map encode_rune cs)).
    rewrite skipn_len_app. f_equal. apply IH; [exact Hv'|]. cbn [length] in Hf. lia.
Qed.

Section Cluster.
  Variable cfg : pconfig.
  Variable orc : oracles.
  Variable root : command.
  Variable ht : rt -> str.

  Local Notation pstep := (step cfg orc root ht).
  Local Notation ploop := (run_loop cfg orc root ht).
  Local Notation oset := (opt_set orc (pc_nsdelim cfg) ht).
  Local Notation fold := (denote orc (pc_nsdelim cfg) ht).
  Local Notation fset := (flag_set cfg orc ht).

  (* what parseShort's rune loop does on a cluster of flags: parseOption's flag case
     (Option.Set, error wrapped) for every flag in order, stopping at the first error *)
  Fixpoint flags_fold (ocs : list octx) (r : rt) : res (rt * option err) :=
    match ocs with
    | [] => Ok (r, None)
    | oc :: rest =>
      bind (fset oc r) (fun re => match snd re with
                                  | Some e => Ok (fst re, Some e)
                                  | None => flags_fold rest (fst re)
                                  end)
    end.

  Lemma flags_fold_cons oc rest r :
    flags_fold (oc :: rest) r =
    bind (fset oc r) (fun re => match snd re with
                                | Some e => Ok (fst re, Some e)
                                | None => flags_fold rest (fst re)
                                end).
  Proof. reflexivity. Qed.

  Lemma flags_fold_cls : forall ocs r,
    wp (fun _ : str => True) (flags_fold ocs r) (fun re => err_opt not_unknown (snd re)).
  Proof.
    induction ocs as [|oc ocs IH]; intros r.
    - exact I.
    - rewrite flags_fold_cons. apply wp_bind.
      eapply wp_conseq; [apply (flag_set_cls cfg orc ht)|].
      intros [r1 [e|]] H; cbn [fst snd].
      + exact H.
      + apply IH.
  Qed.

  Lemma short_loop_flags : forall (s : pst) cs ocs, Forall2 (cluster_flag (ps_lk s)) cs ocs ->
    forall total off r,
    short_loop cfg orc ht total (rune_pos off cs) None s r = lift_s s (flags_fold ocs r).
  Proof.
    intros s cs ocs H. induction H as [|c oc cs ocs (Hv & H45 & Hf & Hc) _ IH]; intros total off r.
    - reflexivity.
    - cbn [rune_pos]. rewrite (short_loop_cons cfg orc ht _ _ _ _ _ _ s r oc Hf).
      rewrite parse_option_flag by exact Hc.
      rewrite flags_fold_cons.
      destruct (fset oc r) as [[r1 [e|]]|e|w]; unfold lift_s at 1; cbn [bind fst snd]; try reflexivity.
      apply IH.
  Qed.

  (* the fold of the wrapped flag settings versus the fold of Option.Set *)
  Lemma flags_fold_spec : forall ocs r,
    match fold (flag_occs ocs) r with
    | Ok (r', None) => flags_fold ocs r = Ok (r', None)
    | Ok (r', Some e) =>
      exists ocs1 oc ocs2 r1,
        ocs = ocs1 ++ oc :: ocs2 /\ fold (flag_occs ocs1) r = Ok (r1, None) /\
        oset oc None r1 = Ok (r', Some e) /\
        flags_fold ocs r = Ok (r', Some (wrap_marshal cfg oc e))
    | Err e => flags_fold ocs r = Err e
    | Panic w => flags_fold ocs r = Panic w
    end.
  Proof.
    induction ocs as [|oc ocs IH]; intros r.
    - reflexivity.
    - cbn [flag_occs map]. fold (flag_occs ocs). rewrite denote_cons, flags_fold_cons.
      unfold flag_set.
      destruct (oset oc None r) as [[r1 [e|]]|e|w] eqn:E; cbn [bind fst snd option_map]; try reflexivity.
      + exists [], oc, ocs, r. repeat split. exact E.
      + specialize (IH r1).
        destruct (fold (flag_occs ocs) r1) as [[r' [e|]]|e|w]; try exact IH.
        destruct IH as (ocs1 & oc' & ocs2 & rm & -> & D & S & F).
        exists (oc :: ocs1), oc', ocs2, rm. split; [reflexivity|]. split; [|split; [exact S|exact F]].
        cbn [flag_occs map]. fold (flag_occs ocs1). rewrite denote_cons, E. cbn [bind fst snd]. exact D.
  Qed.

  (* one loop iteration on the cluster token *)
  Lemma short_split_eq_first V : short_split (61 :: V) = (false, 61 :: V, None).
  Proof. unfold short_split. cbn [index_byte]. rewrite N.eqb_refl. reflexivity. Qed.

  Lemma cluster_step : forall s r cs ocs rest,
    cs <> [] -> nth 1 cs 0 <> 61 -> Forall2 (cluster_flag (ps_lk s)) cs ocs ->
    ps_args s = cluster_tok cs :: rest ->
    pstep s r = outcome (ps_with_args s (cluster_tok cs) rest) (flags_fold ocs r).
  Proof.
    intros s r cs ocs rest Hne Hnth HF Hargs.
    assert (Hvalid : Forall (fun c => valid_rune c = true) cs).
    { clear -HF. induction HF as [|c oc cs ocs (Hv & _) _ IH]; constructor; assumption. }
    destruct HF as [|c1 oc1 cs' ocs' (Hv & H45 & Hf & Hc) HF']; [congruence|].
    set (V := concat (map encode_rune cs')).
    assert (Ebody : concat (map encode_rune (c1 :: cs')) = encode_rune c1 ++ V) by reflexivity.
    pose proof (valid_rune_enc c1 Hv) as R.
    destruct (rune_enc_hd c1 _ R H45) as (b & t & Ex & Hb).
    assert (A : argument_is_option (cluster_tok (c1 :: cs')) = true).
    { unfold cluster_tok. rewrite Ebody, Ex. apply aio_short; exact Hb. }
    assert (S : split_option (cluster_tok (c1 :: cs')) = (false, encode_rune c1 ++ V, None)).
    { unfold cluster_tok. rewrite Ebody.
      transitivity (short_split (encode_rune c1 ++ V)); [rewrite Ex; apply split_option_short; exact Hb|].
      destruct HF' as [|c2 oc2 cs'' ocs'' (Hv2 & _) _].
      - unfold V. cbn [map concat]. rewrite app_nil_r. exact (short_split_single _ c1 R).
      - assert (H612 : c2 <> 61) by exact Hnth.
        destruct (N.eq_dec c1 61) as [E61|H61].
        { rewrite E61, (encode_ascii 61) by lia. apply short_split_eq_first. }
        apply (short_split_concat _ c1 V R H61).
        + unfold V. cbn [map concat]. pose proof (encode_nonempty c2).
          destruct (encode_rune c2); [congruence|discriminate].
        + unfold V. cbn [map concat].
          pose proof (rune_enc_no61 c2 _ (valid_rune_enc c2 Hv2) H612) as N61.
          pose proof (encode_nonempty c2) as NE.
          destruct (encode_rune c2) as [|b2 t2]; [congruence|].
          cbn [app hd]. intros E61. apply N61. left. exact E61. }
    rewrite (step_on_option cfg orc root ht s r _ rest false _ None Hargs A S).
    set (s0 := ps_with_args s (cluster_tok (c1 :: cs')) rest).
    assert (P : parse_short cfg orc ht (encode_rune c1 ++ V) None s0 r =
                lift_s s0 (flags_fold (oc1 :: ocs') r)).
    { unfold parse_short, split_short_concat. rewrite (re_dec _ _ R V).
      change (ps_lk s0) with (ps_lk s). rewrite Hf, Hc.
      assert (Q : (let '(optname, argument) :=
                       if Nat.eqb (length (encode_rune c1)) (length (encode_rune c1 ++ V))
                       then (encode_rune c1 ++ V, @None str) else (encode_rune c1 ++ V, None) in
                   short_loop cfg orc ht (length optname) (range_str optname) argument s0 r) =
                  lift_s s0 (flags_fold (oc1 :: ocs') r)).
      { destruct (Nat.eqb _ _).
        - rewrite <- Ebody. unfold range_str. rewrite range_fuel_runes by (try exact Hvalid; lia).
          apply short_loop_flags. constructor; [repeat split; assumption|exact HF'].
        - rewrite <- Ebody. unfold range_str. rewrite range_fuel_runes by (try exact Hvalid; lia).
          apply short_loop_flags. constructor; [repeat split; assumption|exact HF']. }
      exact Q. }
    rewrite P. apply tail_lift. apply flags_fold_cls.
  Qed.
  (* the loop on the separate tokens -a -b -c, followed by [rest] *)
  Lemma sep_loop : forall lk cs ocs, Forall2 (cluster_flag lk) cs ocs ->
    forall f s r rest, ps_lk s = lk -> ps_args s = sep_toks cs ++ rest ->
    match fold (flag_occs ocs) r with
    | Ok (rm, None) =>
      exists s1, popped s (sep_toks cs) rest s1 /\ ploop (length cs + f) s r = ploop f s1 rm
    | Ok (r', Some e) =>
      exists cs1 c cs2 ocs1 oc ocs2 r1 s',
        cs = cs1 ++ c :: cs2 /\ ocs = ocs1 ++ oc :: ocs2 /\ length cs1 = length ocs1 /\
        fold (flag_occs ocs1) r = Ok (r1, None) /\ oset oc None r1 = Ok (r', Some e) /\
        ploop (length cs + f) s r = Ok (s', r') /\
        ps_err s' = Some (wrap_marshal cfg oc e) /\
        ps_args s' = sep_toks cs2 ++ rest /\ ps_arg s' = 45 :: encode_rune c /\
        ps_ret s' = ps_ret s /\ ps_pos s' = ps_pos s /\ ps_cmd s' = ps_cmd s /\ ps_lk s' = ps_lk s
    | Err e => ploop (length cs + f) s r = Err e
    | Panic w => ploop (length cs + f) s r = Panic w
    end.
  Proof.
    intros lk cs ocs H. induction H as [|c oc cs ocs HC HF IH]; intros f s r rest Hlk Hargs.
    - cbn [flag_occs map]. rewrite denote_nil. exists s. split; [|reflexivity].
      repeat split. exact Hargs.
    - pose proof HC as (Hv & H45 & Hfind & Hcan).
      assert (Sp : spell1 lk [45 :: encode_rune c] (oc, None)) by (apply sp_short_flag; assumption).
      cbn [sep_toks map] in Hargs. fold (sep_toks cs) in Hargs.
      destruct (step_spell1 cfg orc root ht lk _ oc None Sp s r (sep_toks cs ++ rest) Hlk Hargs)
        as (s1 & (Pargs & Parg & Pret & Ppos & Perr & Pcmd & Plk) & Hstep).
      cbn [length Nat.add].
      rewrite (run_loop_cons cfg orc root ht _ s r _ _ Hargs), Hstep.
      cbn [flag_occs map]. fold (flag_occs ocs). rewrite denote_cons. unfold after_set.
      destruct (oset oc None r) as [[r1 [e|]]|e|w] eqn:E; cbn [bind fst snd]; try reflexivity.
      + exists [], c, cs, [], oc, ocs, r, (ps_with_err s1 (Some (wrap_marshal cfg oc e))).
        cbn [ps_with_err ps_err ps_args ps_arg ps_ret ps_pos ps_cmd ps_lk app length].
        repeat split; try assumption. 
      + specialize (IH f s1 r1 rest (eq_trans Plk Hlk) Pargs).
        destruct (fold (flag_occs ocs) r1) as [[r' [e|]]|e|w]; try exact IH.
        * destruct IH as (cs1 & c' & cs2 & ocs1 & oc' & ocs2 & rm & s' & -> & -> & Hlen & D & S & L &
                          He & Ha & Hag & Hret & Hpos & Hcmd & Hlk').
          exists (c :: cs1), c', cs2, (oc :: ocs1), oc', ocs2, rm, s'.
          split; [reflexivity|]. split; [reflexivity|]. split; [cbn [length]; congruence|].
          split; [cbn [flag_occs map]; fold (flag_occs ocs1); rewrite denote_cons, E; cbn [bind fst snd]; exact D|].
          split; [exact S|]. split; [exact L|]. split; [exact He|]. split; [exact Ha|]. split; [exact Hag|].
          repeat split; congruence.
        * destruct IH as (s1' & (Qargs & Qarg & Qret & Qpos & Qerr & Qcmd & Qlk) & L).
          exists s1'. split; [|exact L].
          split; [exact Qargs|].
          split; [rewrite Qarg, Parg; change (sep_toks (c :: cs)) with ((45 :: encode_rune c) :: sep_toks cs);
                  rewrite (last_cons_default (sep_toks cs)); reflexivity|].
          repeat split; congruence.
  Qed.

  (* the outcome of the loop on  -abc post  (result [l1], started in [s1]) versus
     -a -b -c post  (result [l2], started in [s2]) *)
  Definition cluster_outcome (lk : lookup) (cs : list N) (ocs : list octx) (post : list str)
             (occs_post : list occ) (r : rt) (s1 s2 : pst) (l1 l2 : res (pst * rt)) : Prop :=
    match fold (flag_occs ocs) r with
    | Ok (rm, None) =>
      (* every flag of the cluster is set: both runs continue with the tokens [post] in the state
         [rm] the flags fold to, and have the same outcome in the sense of target 1 *)
      same_outcome cfg orc ht lk occs_post rm s1 l1 l2
    | Ok (r', Some e) =>
      (* Option.Set fails on the flag [c] in the middle, [cs = cs1 ++ c :: cs2]: both runs stop with
         the same runtime state and the same recorded error; the cluster is ONE token, so the
         flags [cs2] after the failing one are dropped with it, whereas their separate tokens
         stay pending in front of [post] *)
      exists cs1 c cs2 ocs1 oc ocs2 r1 s1' s2',
        cs = cs1 ++ c :: cs2 /\ ocs = ocs1 ++ oc :: ocs2 /\ length cs1 = length ocs1 /\
        fold (flag_occs ocs1) r = Ok (r1, None) /\ oset oc None r1 = Ok (r', Some e) /\
        l1 = Ok (s1', r') /\ l2 = Ok (s2', r') /\
        ps_err s1' = Some (wrap_marshal cfg oc e) /\ ps_err s2' = Some (wrap_marshal cfg oc e) /\
        ps_args s1' = post /\ ps_args s2' = sep_toks cs2 ++ post /\
        ps_arg s1' = cluster_tok cs /\ ps_arg s2' = 45 :: encode_rune c /\
        ps_ret s1' = ps_ret s1 /\ ps_pos s1' = ps_pos s1 /\ ps_cmd s1' = ps_cmd s1 /\ ps_lk s1' = ps_lk s1 /\
        ps_ret s2' = ps_ret s2 /\ ps_pos s2' = ps_pos s2 /\ ps_cmd s2' = ps_cmd s2 /\ ps_lk s2' = ps_lk s2
    | Err e => l1 = Err e /\ l2 = Err e
    | Panic w => l1 = Panic w /\ l2 = Panic w
    end.

  Theorem C02_cluster_as_flags :
    forall (lk : lookup) (cs : list N) (ocs : list octx) (post : list str) (occs_post : list occ),
    cs <> [] -> nth 1 cs 0 <> 61 -> Forall2 (cluster_flag lk) cs ocs -> spells lk post occs_post ->
    forall (fuel1 fuel2 : nat) (s1 s2 : pst) (r : rt),
    ps_lk s1 = lk -> ps_lk s2 = lk ->
    ps_ret s1 = ps_ret s2 -> ps_pos s1 = ps_pos s2 -> ps_err s1 = ps_err s2 -> ps_cmd s1 = ps_cmd s2 ->
    ps_args s1 = cluster_tok cs :: post -> ps_args s2 = sep_toks cs ++ post ->
    (length (cluster_tok cs :: post) < fuel1)%nat -> (length (sep_toks cs ++ post) < fuel2)%nat ->
    cluster_outcome lk cs ocs post occs_post r s1 s2 (ploop fuel1 s1 r) (ploop fuel2 s2 r).
  Proof.
    intros lk cs ocs post occs_post Hne Hnth HF Hpost fuel1 fuel2 s1 s2 r Hlk1 Hlk2 Hret Hpos Herr Hcmd Ha1 Ha2 Hf1 Hf2.
    destruct fuel1 as [|f1]; [lia|].
    assert (HF1 : Forall2 (cluster_flag (ps_lk s1)) cs ocs) by (rewrite Hlk1; exact HF).
    rewrite (run_loop_cons cfg orc root ht f1 s1 r _ post Ha1), (cluster_step s1 r cs ocs post Hne Hnth HF1 Ha1).
    set (s0 := ps_with_args s1 (cluster_tok cs) post).
    pose proof (flags_fold_spec ocs r) as FS.
    unfold sep_toks in Hf2. rewrite app_length, map_length in Hf2. cbn [length] in Hf1.
    replace fuel2 with (length cs + (fuel2 - length cs))%nat by lia.
    pose proof (sep_loop lk cs ocs HF (fuel2 - length cs)%nat s2 r post Hlk2 Ha2) as SL.
    unfold cluster_outcome.
    destruct (fold (flag_occs ocs) r) as [[r' [e|]]|e|w] eqn:Ed.
    - destruct FS as (ocs1 & oc & ocs2 & r1 & Eo & D & S & F).
      destruct SL as (cs1 & c & cs2 & ocs1' & oc' & ocs2' & r1' & s2' & Ec & Eo' & Hlen & D' & S' & L2 &
                      He & Ha & Hag & Hret' & Hpos' & Hcmd' & Hlk').
      assert (E : flag_occs ocs1 ++ (oc, None) :: flag_occs ocs2 =
                  flag_occs ocs1' ++ (oc', None) :: flag_occs ocs2').
      { change ((oc, @None str) :: flag_occs ocs2) with (flag_occs (oc :: ocs2)).
        change ((oc', @None str) :: flag_occs ocs2') with (flag_occs (oc' :: ocs2')).
        rewrite <- !flag_occs_app. congruence. }
      destruct (denote_first_error_unique orc (pc_nsdelim cfg) ht _ _ _ _ _ _ _ _ _ _ _ _ _ _ _ E D S D' S')
        as (E1 & <- & _ & E2 & <- & _ & _).
      apply flag_occs_inj in E1. apply flag_occs_inj in E2. subst ocs1' ocs2'.
      rewrite F. unfold outcome. cbn [bind fst snd].
      exists cs1, c, cs2, ocs1, oc, ocs2, r1, (ps_with_err s0 (Some (wrap_marshal cfg oc e))), s2'.
      cbn [ps_with_err s0 ps_with_args ps_err ps_args ps_arg ps_ret ps_pos ps_cmd ps_lk].
      repeat split; assumption.
    - rewrite FS. unfold outcome. cbn [bind fst snd].
      destruct SL as (s2a & (Qargs & Qarg & Qret & Qpos & Qerr & Qcmd & Qlk) & ->).
      assert (K : same_outcome cfg orc ht lk occs_post r' s0 (ploop f1 s0 r') (ploop (fuel2 - length cs) s2a r')).
      { apply (loop_rel_same_outcome cfg orc ht lk post post occs_post r' s0 s2a).
        - unfold s0. repeat split; cbn [ps_with_args ps_ret ps_pos ps_err ps_cmd ps_lk]; congruence.
        - exact Hlk1.
        - apply (C01_loop_is_fold cfg orc root ht lk post occs_post Hpost f1 s0 r'); [exact Hlk1|reflexivity|lia].
        - apply (C01_loop_is_fold cfg orc root ht lk post occs_post Hpost _ s2a r'); [congruence|exact Qargs|lia]. }
      exact K.
    - rewrite FS. split; [reflexivity|exact SL].
    - rewrite FS. split; [reflexivity|exact SL].
  Qed.
  (* ---- the cluster inside a context: a spelled prefix whose occurrences are all set ---- *)
  Lemma loop_prefix_ok : forall lk pre occs_pre, spells lk pre occs_pre ->
    forall fuel s r rest rm,
    ps_lk s = lk -> ps_args s = pre ++ rest -> (length (pre ++ rest) < fuel)%nat ->
    fold occs_pre r = Ok (rm, None) ->
    exists fuel' s', (length rest < fuel')%nat /\ popped s pre rest s' /\ ploop fuel s r = ploop fuel' s' rm.
  Proof.
    induction 1 as [|ts [oc a] toks occs H1 Hs IH]; intros fuel s r rest rm Hlk Hargs Hf Hd.
    - rewrite denote_nil in Hd. injection Hd as <-. exists fuel, s.
      split; [exact Hf|]. split; [|reflexivity]. repeat split. exact Hargs.
    - destruct fuel as [|f]; [lia|].
      destruct (spell1_nonempty lk ts _ H1) as (t & ts' & Ets).
      assert (Hne : ts <> []) by (rewrite Ets; discriminate).
      rewrite <- app_assoc in Hargs.
      destruct (step_spell1 cfg orc root ht lk ts oc a H1 s r (toks ++ rest) Hlk Hargs)
        as (s1 & (Pargs & Parg & Pret & Ppos & Perr & Pcmd & Plk) & Hstep).
      assert (Hargs' : ps_args s = t :: (ts' ++ toks ++ rest)) by (rewrite Hargs, Ets; reflexivity).
      rewrite (run_loop_cons cfg orc root ht f s r t _ Hargs'), Hstep.
      destruct (denote_cons_ok orc (pc_nsdelim cfg) ht _ _ _ _ _ Hd) as (r1 & E & Hd').
      unfold after_set. rewrite E. cbn [bind fst snd].
      assert (Hf' : (length (toks ++ rest) < f)%nat).
      { rewrite <- app_assoc, app_length, Ets in Hf. cbn [length] in Hf. lia. }
      destruct (IH f s1 r1 rest rm (eq_trans Plk Hlk) Pargs Hf' Hd')
        as (fuel' & s' & Hfl & (Qargs & Qarg & Qret & Qpos & Qerr & Qcmd & Qlk) & L).
      exists fuel', s'. split; [exact Hfl|]. split; [|exact L].
      split; [exact Qargs|].
      split; [rewrite Qarg, Parg; symmetry; apply last_app_nonempty; exact Hne|].
      repeat split; congruence.
  Qed.

  Lemma same_outcome_sim lk occs r s s' l1 l2 :
    ps_ret s = ps_ret s' -> ps_pos s = ps_pos s' -> ps_err s = ps_err s' -> ps_cmd s = ps_cmd s' ->
    ps_lk s = ps_lk s' ->
    same_outcome cfg orc ht lk occs r s l1 l2 -> same_outcome cfg orc ht lk occs r s' l1 l2.
  Proof.
    intros A B C D E. unfold same_outcome.
    destruct l1 as [[s1' r1']|e1|w1], l2 as [[s2' r2']|e2|w2]; try (intros H; exact H).
    rewrite A, B, C, D, E. intros H; exact H.
  Qed.

  Lemma cluster_outcome_sim lk cs ocs post occs_post r s1 s2 t1 t2 l1 l2 :
    ps_ret s1 = ps_ret t1 -> ps_pos s1 = ps_pos t1 -> ps_err s1 = ps_err t1 -> ps_cmd s1 = ps_cmd t1 ->
    ps_lk s1 = ps_lk t1 ->
    ps_ret s2 = ps_ret t2 -> ps_pos s2 = ps_pos t2 -> ps_cmd s2 = ps_cmd t2 -> ps_lk s2 = ps_lk t2 ->
    cluster_outcome lk cs ocs post occs_post r s1 s2 l1 l2 ->
    cluster_outcome lk cs ocs post occs_post r t1 t2 l1 l2.
  Proof.
    intros A B C D E A2 B2 D2 E2. unfold cluster_outcome.
    destruct (fold (flag_occs ocs) r) as [[r' [e|]]|e|w]; try (intros H; exact H).
    - rewrite A, B, D, E, A2, B2, D2, E2. intros H; exact H.
    - apply same_outcome_sim; assumption.
  Qed.

  Theorem C02_cluster_in_context :
    forall (lk : lookup) (pre : list str) (occs_pre : list occ) (cs : list N) (ocs : list octx)
           (post : list str) (occs_post : list occ),
    cs <> [] -> nth 1 cs 0 <> 61 -> Forall2 (cluster_flag lk) cs ocs ->
    spells lk pre occs_pre -> spells lk post occs_post ->
    forall (fuel1 fuel2 : nat) (s1 s2 : pst) (r rm : rt),
    ps_lk s1 = lk -> ps_lk s2 = lk ->
    ps_ret s1 = ps_ret s2 -> ps_pos s1 = ps_pos s2 -> ps_err s1 = ps_err s2 -> ps_cmd s1 = ps_cmd s2 ->
    ps_args s1 = pre ++ cluster_tok cs :: post -> ps_args s2 = pre ++ sep_toks cs ++ post ->
    (length (pre ++ cluster_tok cs :: post) < fuel1)%nat ->
    (length (pre ++ sep_toks cs ++ post) < fuel2)%nat ->
    (* the occurrences before the cluster are all set, leading to the state [rm] *)
    fold occs_pre r = Ok (rm, None) ->
    cluster_outcome lk cs ocs post occs_post rm s1 s2 (ploop fuel1 s1 r) (ploop fuel2 s2 r).
  Proof.
    intros lk pre occs_pre cs ocs post occs_post Hne Hnth HF Hpre Hpost fuel1 fuel2 s1 s2 r rm
           Hlk1 Hlk2 Hret Hpos Herr Hcmd Ha1 Ha2 Hf1 Hf2 Hd.
    destruct (loop_prefix_ok lk pre occs_pre Hpre fuel1 s1 r _ rm Hlk1 Ha1 Hf1 Hd)
      as (g1 & t1 & Hg1 & (Pargs & _ & Pret & Ppos & Perr & Pcmd & Plk) & ->).
    destruct (loop_prefix_ok lk pre occs_pre Hpre fuel2 s2 r _ rm Hlk2 Ha2 Hf2 Hd)
      as (g2 & t2 & Hg2 & (Qargs & _ & Qret & Qpos & Qerr & Qcmd & Qlk) & ->).
    apply (cluster_outcome_sim lk cs ocs post occs_post rm t1 t2 s1 s2); try assumption.
    apply C02_cluster_as_flags; try assumption; congruence.
  Qed.
End Cluster.

(* ================================================================== *)
(* B. C13: an INI entry is the corresponding command-line flag          *)
(* ================================================================== *)

(* ---- the argument an entry hands to Option.Set (IniParser.parse) ----
   - an option that takes no argument (bool, func()) with an EMPTY value: no argument (nil),
     i.e. the flag is switched on;
   - a map option whose value  key:"..."  has a quoted part after the first ':': the part is
     unquoted (a malformed quotation is the error  EIni line "invalid syntax");
   - otherwise the value text of the entry (which the reader has already unquoted when the
     whole value was quoted, ie_quoted = true). *)
Definition entry_arg (o : opt) (e : ini_entry) : option str + err :=
  if negb (can_argument o) && negb (nonempty (ie_value e)) then inl None
  else if is_map (o_ty o) then
    match cut_byte (ie_value e) 58 with
    | (k, Some v) =>
      match v with
      | 34 :: _ =>
        match unquote v with
        | Some u => inl (Some (k ++ [58] ++ u))
        | None => inr (EIni (ie_line e) err_syntax)
        end
      | _ => inl (Some (ie_value e))
      end
    | (_, None) => inl (Some (ie_value e))
    end
  else inl (Some (ie_value e)).

(* whether the entry counts as quoted for the writer's quotesLookup *)
Definition entry_quoted (o : opt) (e : ini_entry) : bool :=
  ie_quoted e ||
  (can_argument o || nonempty (ie_value e)) && is_map (o_ty o) &&
  match cut_byte (ie_value e) 58 with (_, Some (34 :: _)) => true | _ => false end.

(* the common cases *)
Lemma entry_arg_plain o e : can_argument o = true -> is_map (o_ty o) = false ->
  entry_arg o e = inl (Some (ie_value e)).
Proof. intros H M. unfold entry_arg. rewrite H, M. reflexivity. Qed.
Lemma entry_arg_flag_on o e : can_argument o = false -> ie_value e = [] -> entry_arg o e = inl None.
Proof. intros H V. unfold entry_arg. rewrite H, V. reflexivity. Qed.
Lemma entry_arg_flag_value o e : can_argument o = false -> ie_value e <> [] -> is_map (o_ty o) = false ->
  entry_arg o e = inl (Some (ie_value e)).
Proof.
  intros H V M. unfold entry_arg. rewrite H, M. destruct (ie_value e); [congruence|reflexivity].
Qed.
Lemma entry_quoted_plain o e : is_map (o_ty o) = false -> entry_quoted o e = ie_quoted e.
Proof. intros M. unfold entry_quoted. rewrite M, andb_false_r. cbn [andb]. apply orb_false_r. Qed.
Lemma entry_arg_err o e er : entry_arg o e = inr er -> er = EIni (ie_line e) err_syntax.
Proof.
  unfold entry_arg.
  destruct (negb (can_argument o) && negb (nonempty (ie_value e))); [discriminate|].
  destruct (is_map (o_ty o)); [|discriminate].
  destruct (cut_byte (ie_value e) 58) as [k [v|]]; [|discriminate].
  destruct v as [|c v]; [discriminate|].
  destruct c as [|p]; [discriminate|].
  repeat (destruct p as [p|p|]; try discriminate).
  destruct (unquote (34 :: v)); [discriminate|].
  intros H. injection H as <-. reflexivity.
Qed.

(* the bookkeeping IniParser.parse does after a successful Set: preventDefault (already set
   by Set itself) and the name the entry used *)
Definition ini_mark (r : rt) (fid : nat) (n : str) : rt :=
  let r' := set_fl r fid (fl_set_prevent (rt_fl r fid) true) in
  set_fl r' fid (fl_set_ininame (rt_fl r' fid) n).

(* no-ini options are invisible to the INI reader *)
Lemma resolve_entry_not_noini delim : forall groups name oc,
  resolve_entry delim groups name = Some oc -> o_noini (oc_opt oc) = false.
Proof.
  induction groups as [|g groups IH]; intros name oc H.
  - destruct name; discriminate H.
  - destruct name as [|c name]; [discriminate H|].
    cbn [resolve_entry] in H.
    destruct (option_by_name delim (gref_octxs g) (c :: name)) as [oc'|]; [|exact (IH _ _ H)].
    destruct (o_noini (oc_opt oc')) eqn:N; [exact (IH _ _ H)|].
    injection H as <-. exact N.
Qed.

Section IniEntry.
  Variable orc : oracles.
  Variable delim : str.
  Variable ht : rt -> str.
  Variable ignore_unknown : bool.

  Local Notation oset := (opt_set orc delim ht).
  Local Notation fold := (denote orc delim ht).
  (* NORMAL mode: as_defaults = false *)
  Local Notation aentry := (apply_entry orc delim ht ignore_unknown false).
  Local Notation aentries := (apply_entries orc delim ht ignore_unknown false).

  (* normal form of one entry that names an option *)
  Lemma apply_entry_nf groups e r q dfl oc :
    resolve_entry delim groups (ie_name e) = Some oc ->
    aentry groups e r q dfl =
    match entry_arg (oc_opt oc) e with
    | inr er => Ok (r, q, dfl, Some er)
    | inl a =>
      bind (oset oc a r) (fun rs =>
        match snd rs with
        | Some er => Ok (fst rs, q, dfl, Some (EIni (ie_line e) (err_text er)))
        | None => Ok (ini_mark (fst rs) (o_fid (oc_opt oc)) (ie_name e),
                      ini_quotes q (o_fid (oc_opt oc)) (entry_quoted (oc_opt oc) e), dfl, None)
        end)
    end.
  Proof.
    intros H. unfold apply_entry, entry_arg, entry_quoted, ini_quotes, ini_mark. rewrite H. cbv zeta.
    cbn [andb].
    match goal with |- match ?pv with inl _ => _ | inr _ => _ end = _ => destruct pv as [a|er] end;
      [|reflexivity].
    destruct (oset oc a r) as [[r' [er|]]|er|w]; reflexivity.
  Qed.

  (* ---------------------------------------------------------------- *)
  (* 4. one entry is one Option.Set                                    *)
  (* ---------------------------------------------------------------- *)
  Theorem C13_entry_is_set :
    forall (groups : list gref) (e : ini_entry) (r : rt) (q : quotes) (dfl : list nat) (oc : octx),
    resolve_entry delim groups (ie_name e) = Some oc ->
    let o := oc_opt oc in
    let fid := o_fid o in
    let result := aentry groups e r q dfl in
    (* the entry only ever names an option that is not no-ini *)
    o_noini o = false /\
    match entry_arg o e with
    | inr er =>
      (* malformed quotation inside a map value: reported, nothing changes *)
      er = EIni (ie_line e) err_syntax /\ result = Ok (r, q, dfl, Some er)
    | inl a =>
      match oset oc a r with
      | Ok (r1, None) =>
        exists r2,
          result = Ok (r2, ini_quotes q fid (entry_quoted o e), dfl, None) /\
          (* values (every field), Active pointers, logs: exactly those of Option.Set *)
          rt_vals r2 = rt_vals r1 /\ rt_active r2 = rt_active r1 /\ rt_logs r2 = rt_logs r1 /\
          (* bookkeeping of the other options: exactly that of Option.Set *)
          (forall k, k <> fid -> rt_fl r2 k = rt_fl r1 k) /\
          (* bookkeeping of the option: that of Option.Set (isSet, preventDefault set, clear-before-set
             disarmed) plus the name used by the entry *)
          rt_fl r2 fid = fl_set_ininame (rt_fl r1 fid) (ie_name e) /\
          rt_fl r1 fid = set_flags (rt_fl r fid)
      | Ok (r1, Some er) =>
        (* the error of Option.Set, wrapped as an INI error with the line of the entry *)
        result = Ok (r1, q, dfl, Some (EIni (ie_line e) (err_text er)))
      | Err er => result = Err er
      | Panic w => result = Panic w
      end
    end.
  Proof.
    intros groups e r q dfl oc Hres o fid result. subst result o fid.
    split; [exact (resolve_entry_not_noini delim groups _ oc Hres)|].
    rewrite (apply_entry_nf groups e r q dfl oc Hres).
    destruct (entry_arg (oc_opt oc) e) as [a|er] eqn:Ea.
    2:{ split; [exact (entry_arg_err _ _ _ Ea)|reflexivity]. }
    destruct (oset oc a r) as [[r1 [er|]]|er|w] eqn:E; cbn [bind fst snd]; try reflexivity.
    pose proof (opt_set_fl orc delim ht oc a r r1 None E) as Hfl.
    eexists. split; [reflexivity|].
    unfold ini_mark. cbv zeta. cbn [set_fl rt_vals rt_active rt_logs rt_fl].
    split; [reflexivity|]. split; [reflexivity|]. split; [reflexivity|].
    split.
    - intros k Hk. unfold upd. destruct (Nat.eqb_spec k (o_fid (oc_opt oc))); [contradiction|reflexivity].
    - split; [|exact Hfl]. unfold upd. rewrite !Nat.eqb_refl. rewrite Hfl. reflexivity.
  Qed.
End IniEntry.

(* ---- runtime states that differ only in the INI name bookkeeping (f_ininame) ---- *)
Definition fl_sim (f g : oflags) : Prop :=
  f_isset f = f_isset g /\ f_isdefault f = f_isdefault g /\ f_prevent f = f_prevent g /\
  f_clearref f = f_clearref g /\ f_iniquote f = f_iniquote g /\ f_deflit f = f_deflit g.

Definition rt_sim (a b : rt) : Prop :=
  (forall k, rt_vals a k = rt_vals b k) /\ (forall k, fl_sim (rt_fl a k) (rt_fl b k)) /\
  rt_active a = rt_active b /\ rt_logs a = rt_logs b.

(* errors up to the text of the help message (which is rendered from the runtime state) *)
Definition err_sim (e e' : err) : Prop :=
  e = e' \/ exists m m', e = EFlags ErrHelp m /\ e' = EFlags ErrHelp m'.
Definition oerr_sim (a b : option err) : Prop :=
  match a, b with
  | None, None => True
  | Some e, Some e' => err_sim e e'
  | _, _ => False
  end.
Definition res_sim (x y : res (rt * option err)) : Prop :=
  match x, y with
  | Ok (ra, ea), Ok (rb, eb) => rt_sim ra rb /\ oerr_sim ea eb
  | Err e1, Err e2 => e1 = e2
  | Panic w1, Panic w2 => w1 = w2
  | _, _ => False
  end.

Lemma fl_sim_refl f : fl_sim f f.
Proof. repeat split. Qed.
Lemma fl_sim_trans f g h : fl_sim f g -> fl_sim g h -> fl_sim f h.
Proof. intros (A & B & C & D & E & F) (A' & B' & C' & D' & E' & F'). repeat split; congruence. Qed.
Lemma rt_sim_refl r : rt_sim r r.
Proof. split; [reflexivity|]. split; [intros k; apply fl_sim_refl|]. split; reflexivity. Qed.
Lemma oerr_sim_refl e : oerr_sim e e.
Proof. destruct e; [left; reflexivity|exact I]. Qed.

Lemma rt_sim_set_val a b k v : rt_sim a b -> rt_sim (set_val a k v) (set_val b k v).
Proof.
  intros (V & F & A & L). split; [|split; [exact F|split; assumption]].
  intros i. cbn [set_val rt_vals]. unfold upd. destruct (Nat.eqb i k); [reflexivity|apply V].
Qed.
Lemma rt_sim_set_fl a b k f g : rt_sim a b -> fl_sim f g -> rt_sim (set_fl a k f) (set_fl b k g).
Proof.
  intros (V & F & A & L) H. split; [exact V|]. split; [|split; assumption].
  intros i. cbn [set_fl rt_fl]. unfold upd. destruct (Nat.eqb i k); [exact H|apply F].
Qed.
Lemma rt_sim_log_call a b fid x : rt_sim a b -> rt_sim (log_call a fid x) (log_call b fid x).
Proof.
  intros (V & F & A & L). split; [exact V|]. split; [exact F|]. split; [exact A|].
  unfold log_call. cbv zeta. cbn [set_logs rt_logs]. rewrite L. reflexivity.
Qed.
Lemma fl_sim_set_flags f g : fl_sim f g -> fl_sim (set_flags f) (set_flags g).
Proof. intros (A & B & C & D & E & F). repeat split; assumption. Qed.
Lemma rt_sim_opt_empty o a b : rt_sim a b -> rt_sim (opt_empty o a) (opt_empty o b).
Proof. intros H. unfold opt_empty. destruct (is_func (o_ty o)); [exact H|apply rt_sim_set_val; exact H]. Qed.
Lemma rt_sim_pre_set o a b : rt_sim a b -> rt_sim (pre_set o a) (pre_set o b).
Proof.
  intros H. pose proof H as (V & F & A & L). unfold pre_set.
  destruct (F (o_fid o)) as (_ & _ & _ & Hcr & _). rewrite Hcr.
  apply rt_sim_set_fl; [|apply fl_sim_set_flags; apply F].
  destruct ((is_map (o_ty o) || is_slice (o_ty o)) && f_clearref (rt_fl b (o_fid o)));
    [apply rt_sim_opt_empty; exact H|exact H].
Qed.
Lemma rt_sim_ini_mark a b fid n : rt_sim a b -> f_prevent (rt_fl a fid) = true ->
  rt_sim a (ini_mark b fid n).
Proof.
  intros (V & F & A & L) Hp. split; [exact V|]. split; [|split; assumption].
  intros i. unfold ini_mark. cbv zeta. cbn [set_fl rt_fl]. unfold upd.
  destruct (Nat.eqb_spec i fid) as [->|_]; [|apply F].
  rewrite Nat.eqb_refl. destruct (F fid) as (A1 & A2 & A3 & A4 & A5 & A6).
  repeat split; first [assumption | exact Hp].
Qed.

Section SetSim.
  Variable orc : oracles.
  Variable delim : str.
  Variable ht : rt -> str.

  (* Option.Set unfolded: the choices check, then the callback or the conversion, in the
     state [pre_set] *)
  Definition choice_check (oc : octx) (arg : option str) : res (option err) :=
    match o_choices (oc_opt oc) with
    | [] => Ok None
    | cs =>
      match arg with
      | None => Ok None
      | Some v =>
        if existsb (str_eqb v) cs then Ok None
        else Ok (Some (EFlags ErrInvalidChoice
                (s2l "Invalid value `" ++ v ++ s2l "' for option `" ++ octx_string delim oc ++
                 s2l "'. Allowed values are: " ++ allowed_text cs)))
      end
    end.

  Lemma opt_set_unfold oc arg r :
    opt_set orc delim ht oc arg r =
    bind (choice_check oc arg) (fun ce =>
      match ce with
      | Some e => Ok (pre_set (oc_opt oc) r, Some e)
      | None =>
        if is_func (o_ty (oc_opt oc)) then opt_call orc ht oc arg (pre_set (oc_opt oc) r)
        else
          bind (convert orc (o_base (oc_opt oc)) (match arg with Some v => v | None => [] end)
                        (o_ty (oc_opt oc)) (rt_vals (pre_set (oc_opt oc) r) (o_fid (oc_opt oc))))
               (fun cv => let '(v, e) := cv in
                          Ok (set_val (pre_set (oc_opt oc) r) (o_fid (oc_opt oc)) v, option_map foreign e))
      end).
  Proof. reflexivity. Qed.

  Definition call_finish (o : opt) (r : rt) : res (rt * option err) :=
    if o_is_help o then Ok (r, Some (EFlags ErrHelp (ht r)))
    else match rt_vals r (o_fid o), o_ty o with
         | VFunc true _, _ => Panic (s2l "reflect: call of nil function")
         | VFunc false fails, TFunc _ true =>
           Ok (r, if fails then Some (foreign (s2l "callback failed")) else None)
         | _, _ => Ok (r, None)
         end.

  Lemma opt_call_unfold oc arg r :
    opt_call orc ht oc arg r =
    let o := oc_opt oc in
    match arg, o_ty o with
    | None, TFunc None _ => call_finish o (if o_is_help o then r else log_call r (o_fid o) None)
    | None, _ => Panic (s2l "reflect: Call with too few input arguments")
    | Some _, TFunc None _ => call_finish o (if o_is_help o then r else log_call r (o_fid o) None)
    | Some v, TFunc (Some k) _ =>
      bind (convert orc (o_base o) v (TScalar k) (zero_kind k)) (fun cv =>
        match cv with
        | (_, Some e) => Ok (r, Some (foreign e))
        | (x, None) => call_finish o (log_call r (o_fid o) (Some x))
        end)
    | Some _, _ => Panic (s2l "call on non-func")
    end.
  Proof. reflexivity. Qed.

  Lemma call_finish_sim o a b : rt_sim a b -> res_sim (call_finish o a) (call_finish o b).
  Proof.
    intros H. pose proof H as (V & _). unfold call_finish.
    destruct (o_is_help o).
    { split; [exact H|]. right. eexists; eexists; split; reflexivity. }
    rewrite (V (o_fid o)).
    destruct (rt_vals b (o_fid o)) as [x|x|x|x|x|n l|n l|isnil fails];
      try (split; [exact H|exact I]).
    destruct isnil; [reflexivity|].
    destruct (o_ty o) as [k|k|t|k1 k2|ak re]; try (split; [exact H|exact I]).
    destruct re; split; try exact H; try exact I. apply oerr_sim_refl.
  Qed.

  Lemma opt_call_sim oc arg a b : rt_sim a b -> res_sim (opt_call orc ht oc arg a) (opt_call orc ht oc arg b).
  Proof.
    intros H. rewrite !opt_call_unfold. cbv zeta.
    assert (K : res_sim (call_finish (oc_opt oc) (if o_is_help (oc_opt oc) then a
                                                  else log_call a (o_fid (oc_opt oc)) None))
                        (call_finish (oc_opt oc) (if o_is_help (oc_opt oc) then b
                                                  else log_call b (o_fid (oc_opt oc)) None))).
    { apply call_finish_sim. destruct (o_is_help (oc_opt oc)); [exact H|apply rt_sim_log_call; exact H]. }
    destruct arg as [v|]; destruct (o_ty (oc_opt oc)) as [k|k|t|k1 k2|[k|] re]; try reflexivity; try exact K.
    destruct (convert orc (o_base (oc_opt oc)) v (TScalar k) (zero_kind k)) as [[x [e|]]|e|w];
      cbn [bind]; try reflexivity.
    - split; [exact H|left; reflexivity].
    - apply call_finish_sim. apply rt_sim_log_call. exact H.
  Qed.

  (* Option.Set neither reads nor writes f_ininame *)
  Lemma opt_set_sim oc arg a b : rt_sim a b ->
    res_sim (opt_set orc delim ht oc arg a) (opt_set orc delim ht oc arg b).
  Proof.
    intros H. rewrite !opt_set_unfold.
    pose proof (rt_sim_pre_set (oc_opt oc) a b H) as P.
    destruct (choice_check oc arg) as [[e|]|e|w]; cbn [bind]; try reflexivity.
    - split; [exact P|left; reflexivity].
    - destruct (is_func (o_ty (oc_opt oc))); [apply opt_call_sim; exact P|].
      pose proof P as (V & _). rewrite (V (o_fid (oc_opt oc))).
      destruct (convert orc (o_base (oc_opt oc)) _ (o_ty (oc_opt oc)) _) as [[v e]|e|w]; cbn [bind]; try reflexivity.
      split; [apply rt_sim_set_val; exact P|apply oerr_sim_refl].
  Qed.
End SetSim.

(* ---- a list of entries and the occurrences they denote ---- *)
(* the entry [e] names the option [fst o] and hands [snd o] to Option.Set *)
Definition entry_occ (delim : str) (groups : list gref) (e : ini_entry) (o : occ) : Prop :=
  resolve_entry delim groups (ie_name e) = Some (fst o) /\ entry_arg (oc_opt (fst o)) e = inl (snd o).

(* the quotesLookup after the entries *)
Fixpoint entries_quotes (l : list (ini_entry * occ)) (q : quotes) : quotes :=
  match l with
  | [] => q
  | (e, o) :: l' =>
    entries_quotes l' (ini_quotes q (o_fid (oc_opt (fst o))) (entry_quoted (oc_opt (fst o)) e))
  end.

(* the INI name recorded for field [k] after the entries: the name used by its last entry *)
Fixpoint last_ininame (l : list (ini_entry * occ)) (k : nat) (d : str) : str :=
  match l with
  | [] => d
  | (e, o) :: l' => last_ininame l' k (if Nat.eqb k (o_fid (oc_opt (fst o))) then ie_name e else d)
  end.

Section IniEntries.
  Variable orc : oracles.
  Variable delim : str.
  Variable ht : rt -> str.
  Variable ignore_unknown : bool.

  Local Notation oset := (opt_set orc delim ht).
  Local Notation fold := (denote orc delim ht).
  Local Notation aentries := (apply_entries orc delim ht ignore_unknown false).

  Lemma opt_set_ininame oc a r r' e : oset oc a r = Ok (r', e) ->
    forall k, f_ininame (rt_fl r' k) = f_ininame (rt_fl r k).
  Proof.
    intros H k. destruct (Nat.eq_dec (o_fid (oc_opt oc)) k) as [<-|Hne].
    - rewrite (opt_set_fl orc delim ht oc a r r' e H). reflexivity.
    - destruct (opt_set_other orc delim ht k oc a r r' e H Hne) as (_ & -> & _). reflexivity.
  Qed.

  Lemma apply_entries_cons groups e es r q dfl :
    aentries groups (e :: es) r q dfl =
    bind (apply_entry orc delim ht ignore_unknown false groups e r q dfl) (fun x =>
      match snd x with
      | Some er => Ok (fst (fst (fst x)), snd (fst (fst x)), snd (fst x), Some er)
      | None => aentries groups es (fst (fst (fst x))) (snd (fst (fst x))) (snd (fst x))
      end).
  Proof.
    cbn [apply_entries].
    destruct (apply_entry orc delim ht ignore_unknown false groups e r q dfl) as [[[[r' q'] dfl'] [er|]]|er|w];
      reflexivity.
  Qed.

  (* the entries, applied in a state [rb], against the fold of Option.Set over their
     occurrences in a state [ra] that differs from [rb] only in the INI-name bookkeeping *)
  Lemma entries_sim groups : forall es occs, Forall2 (entry_occ delim groups) es occs ->
    forall ra rb q dfl, rt_sim ra rb ->
    match fold occs ra with
    | Ok (ra', None) =>
      exists rb',
        aentries groups es rb q dfl = Ok (rb', entries_quotes (combine es occs) q, dfl, None) /\
        rt_sim ra' rb' /\
        forall k, f_ininame (rt_fl rb' k) = last_ininame (combine es occs) k (f_ininame (rt_fl rb k))
    | Ok (ra', Some er) =>
      exists rb' q' er' es1 en es2 pre oc a post rm,
        es = es1 ++ en :: es2 /\ occs = pre ++ (oc, a) :: post /\ length es1 = length pre /\
        entry_occ delim groups en (oc, a) /\
        fold pre ra = Ok (rm, None) /\ oset oc a rm = Ok (ra', Some er) /\
        aentries groups es rb q dfl = Ok (rb', q', dfl, Some (EIni (ie_line en) (err_text er'))) /\
        rt_sim ra' rb' /\ err_sim er er'
    | Err e => aentries groups es rb q dfl = Err e
    | Panic w => aentries groups es rb q dfl = Panic w
    end.
  Proof.
    induction 1 as [|e [oc a] es occs [Hres Harg] HF IH]; intros ra rb q dfl H.
    - rewrite denote_nil. exists rb. split; [reflexivity|]. split; [exact H|]. intros k; reflexivity.
    - cbn [fst snd] in Hres, Harg.
      rewrite apply_entries_cons, (apply_entry_nf orc delim ht ignore_unknown groups e rb q dfl oc Hres), Harg.
      rewrite denote_cons.
      pose proof (opt_set_sim orc delim ht oc a ra rb H) as S.
      destruct (oset oc a ra) as [[ra1 [ea|]]|ea|wa] eqn:Ea;
        destruct (oset oc a rb) as [[rb1 [eb|]]|eb|wb] eqn:Eb; cbn [res_sim] in S;
        try (exfalso; exact S); try (exfalso; exact (proj2 S)); cbn [bind fst snd].
      + destruct S as [S1 S2]. cbn [oerr_sim] in S2.
        exists rb1, q, eb, [], e, es, [], oc, a, occs, ra.
        split; [reflexivity|]. split; [reflexivity|]. split; [reflexivity|].
        split; [split; assumption|]. split; [reflexivity|]. split; [exact Ea|].
        split; [reflexivity|]. split; assumption.
      + destruct S as [S1 _].
        assert (Hp : f_prevent (rt_fl ra1 (o_fid (oc_opt oc))) = true).
        { rewrite (opt_set_fl orc delim ht oc a ra ra1 None Ea). reflexivity. }
        specialize (IH ra1 (ini_mark rb1 (o_fid (oc_opt oc)) (ie_name e))
                       (ini_quotes q (o_fid (oc_opt oc)) (entry_quoted (oc_opt oc) e)) dfl
                       (rt_sim_ini_mark ra1 rb1 _ _ S1 Hp)).
        destruct (fold occs ra1) as [[ra' [er|]]|er|w]; try exact IH.
        * destruct IH as (rb' & q' & er' & es1 & en & es2 & pre & oc' & a' & post & rm & -> & -> & Hlen &
                          Hen & D & O & L & S' & Se).
          exists rb', q', er', (e :: es1), en, es2, ((oc, a) :: pre), oc', a', post, rm.
          split; [reflexivity|]. split; [reflexivity|]. split; [cbn [length]; congruence|].
          split; [exact Hen|].
          split; [rewrite denote_cons, Ea; cbn [bind fst snd]; exact D|].
          split; [exact O|]. split; [exact L|]. split; assumption.
        * destruct IH as (rb' & L & S' & N).
          exists rb'. split; [exact L|]. split; [exact S'|].
          intros k. rewrite (N k). cbn [combine last_ininame fst]. f_equal.
          unfold ini_mark. cbv zeta. cbn [set_fl rt_fl]. unfold upd.
          destruct (Nat.eqb k (o_fid (oc_opt oc))); [reflexivity|].
          exact (opt_set_ininame oc a rb rb1 None Eb k).
      + subst eb. reflexivity.
      + subst wb. reflexivity.
  Qed.

  (* ---------------------------------------------------------------- *)
  (* 5. the entries of a section accumulate like repeated flags         *)
  (* ---------------------------------------------------------------- *)
  Theorem C13_entries_accumulate_like_flags :
    forall (groups : list gref) (es : list ini_entry) (occs : list occ) (r : rt) (q : quotes) (dfl : list nat),
    Forall2 (entry_occ delim groups) es occs ->
    match fold occs r with
    | Ok (r1, None) =>
      (* no Option.Set fails: the entries succeed, and leave the state of the fold ... *)
      exists r2,
        aentries groups es r q dfl = Ok (r2, entries_quotes (combine es occs) q, dfl, None) /\
        (forall k, rt_vals r2 k = rt_vals r1 k) /\ rt_active r2 = rt_active r1 /\ rt_logs r2 = rt_logs r1 /\
        (* ... up to the INI bookkeeping: the name used by the last entry of each option *)
        (forall k, fl_sim (rt_fl r1 k) (rt_fl r2 k) /\
                   f_ininame (rt_fl r1 k) = f_ininame (rt_fl r k) /\
                   f_ininame (rt_fl r2 k) = last_ininame (combine es occs) k (f_ininame (rt_fl r k)))
    | Ok (r1, Some er) =>
      (* the first failing Option.Set: the entries stop at the corresponding entry [en] with the
         same state (up to the INI names) and the error wrapped as EIni with the line of [en] *)
      exists r2 q2 er' es1 en es2 pre oc a post rm,
        es = es1 ++ en :: es2 /\ occs = pre ++ (oc, a) :: post /\ length es1 = length pre /\
        entry_occ delim groups en (oc, a) /\
        fold pre r = Ok (rm, None) /\ oset oc a rm = Ok (r1, Some er) /\
        aentries groups es r q dfl = Ok (r2, q2, dfl, Some (EIni (ie_line en) (err_text er'))) /\
        rt_sim r1 r2 /\ err_sim er er'
    | Err e => aentries groups es r q dfl = Err e
    | Panic w => aentries groups es r q dfl = Panic w
    end.
  Proof.
    intros groups es occs r q dfl HF.
    pose proof (entries_sim groups es occs HF r r q dfl (rt_sim_refl r)) as K.
    destruct (fold occs r) as [[r1 [er|]]|er|w] eqn:Ed; try exact K.
    destruct K as (r2 & L & (V & F & A & Lg) & N).
    exists r2. split; [exact L|]. split; [intros k; symmetry; apply V|].
    split; [symmetry; exact A|]. split; [symmetry; exact Lg|].
    intros k. split; [apply F|]. split; [|apply N].
    clear -Ed. revert r Ed. induction occs as [|[oc a] occs IH]; intros r Ed.
    - rewrite denote_nil in Ed. injection Ed as <-. reflexivity.
    - destruct (denote_cons_ok orc delim ht _ _ _ _ _ Ed) as (rx & Hx & Ed').
      rewrite (IH rx Ed'). exact (opt_set_ininame oc a r rx None Hx k).
  Qed.
End IniEntries.

(* ---------------------------------------------------------------- *)
(* the final corollary: the entries of a section versus the argument  *)
(* loop on ANY spelling of the same occurrences                       *)
(* ---------------------------------------------------------------- *)
Theorem C13_section_equals_flags :
  forall (cfg : pconfig) (orc : oracles) (root : command) (ht : rt -> str) (ignore_unknown : bool)
         (groups : list gref) (es : list ini_entry) (occs : list occ) (toks : list str)
         (fuel : nat) (s : pst) (r : rt) (q : quotes) (dfl : list nat),
  Forall2 (entry_occ (pc_nsdelim cfg) groups) es occs ->
  spells (ps_lk s) toks occs -> ps_args s = toks -> (length toks < fuel)%nat ->
  match run_loop cfg orc root ht fuel s r,
        apply_entries orc (pc_nsdelim cfg) ht ignore_unknown false groups es r q dfl with
  | Ok (s', r1), Ok (r2, q2, dfl2, ier) =>
    (* the same value in EVERY field, the same Active pointers and logs; the same bookkeeping
       (isSet, preventDefault, clear-before-set, ...) except for the recorded INI names *)
    (forall k, rt_vals r2 k = rt_vals r1 k) /\ rt_active r2 = rt_active r1 /\ rt_logs r2 = rt_logs r1 /\
    (forall k, fl_sim (rt_fl r1 k) (rt_fl r2 k)) /\ dfl2 = dfl /\
    ( (* both succeed: the state is the fold of Option.Set over the occurrences *)
      (denote orc (pc_nsdelim cfg) ht occs r = Ok (r1, None) /\
       ps_err s' = ps_err s /\ ps_args s' = [] /\ ier = None /\
       q2 = entries_quotes (combine es occs) q /\
       forall k, f_ininame (rt_fl r1 k) = f_ininame (rt_fl r k) /\
                 f_ininame (rt_fl r2 k) = last_ininame (combine es occs) k (f_ininame (rt_fl r k)))
      \/
      (* both stop at the same occurrence / entry, whose Option.Set fails: the loop records the
         error wrapped by parseOption, the INI parser the same text as EIni with the entry's line *)
      (exists es1 en es2 pre oc a post er er',
          es = es1 ++ en :: es2 /\ occs = pre ++ (oc, a) :: post /\ length es1 = length pre /\
          entry_occ (pc_nsdelim cfg) groups en (oc, a) /\
          denote orc (pc_nsdelim cfg) ht occs r = Ok (r1, Some er) /\
          ps_err s' = Some (wrap_marshal cfg oc er) /\
          ier = Some (EIni (ie_line en) (err_text er')) /\ err_sim er er' /\
          spells (ps_lk s) (ps_args s') post) )
  | Err e1, Err e2 => e1 = e2
  | Panic w1, Panic w2 => w1 = w2
  | _, _ => False
  end.
Proof.
  intros cfg orc root ht iu groups es occs toks fuel s r q dfl HF Hsp Hargs Hf.
  pose proof (C01_loop_is_fold cfg orc root ht (ps_lk s) toks occs Hsp fuel s r eq_refl Hargs Hf) as L.
  pose proof (C13_entries_accumulate_like_flags orc (pc_nsdelim cfg) ht iu groups es occs r q dfl HF) as K.
  destruct (denote orc (pc_nsdelim cfg) ht occs r) as [[r1 [er|]]|er|w] eqn:Ed; cbn [loop_rel] in L.
  - destruct L as (s' & ta & ts & tb & pre & oc & a & post & rm & -> & _ & Eo & _ & _ & Sp & D & O & Herr & Ha & _).
    destruct K as (r2 & q2 & er' & es1 & en & es2 & pre' & oc' & a' & post' & rm' & Ee & Eo' & Hlen & Hen &
                   D' & O' & -> & (V & F & A & Lg) & Se).
    assert (E : pre ++ (oc, a) :: post = pre' ++ (oc', a') :: post') by congruence.
    destruct (denote_first_error_unique orc (pc_nsdelim cfg) ht _ _ _ _ _ _ _ _ _ _ _ _ _ _ _ E D O D' O')
      as (<- & <- & <- & <- & _).
    split; [intros k; symmetry; apply V|]. split; [symmetry; exact A|]. split; [symmetry; exact Lg|].
    split; [exact F|]. split; [reflexivity|].
    right. exists es1, en, es2, pre, oc, a, post, er, er'.
    repeat split; try assumption; try reflexivity; try apply Hen. rewrite Ha. exact Sp.
  - destruct L as (s' & -> & Pa & _ & _ & _ & Perr & _).
    destruct K as (r2 & -> & V & A & Lg & N).
    split; [exact V|]. split; [exact A|]. split; [exact Lg|].
    split; [intros k; apply N|]. split; [reflexivity|].
    left. repeat split; try assumption; try reflexivity; apply N.
  - rewrite L, K. reflexivity.
  - rewrite L, K. reflexivity.
Qed.

(* "repeated entries accumulate like repeated flags", spelled out for a slice option: in the
   armed state (clear-before-set, as IniParser.parse establishes) the field ends up holding
   exactly the converted values of its entries, in order - the same slice the fold of
   Option.Set (hence the command line) produces *)
Corollary C13_slice_entries_accumulate :
  forall (orc : oracles) (delim : str) (ht : rt -> str) (ignore_unknown : bool)
         (groups : list gref) (es : list ini_entry) (occs : list occ) (r r1 : rt) (q : quotes) (dfl : list nat)
         (o0 : opt) (e : vtype) (vs : list str),
  Forall2 (entry_occ delim groups) es occs ->
  fid_identifies o0 occs -> o_ty o0 = TSlice e ->
  map snd (occs_of (o_fid o0) occs) = map Some vs -> vs <> [] ->
  f_clearref (rt_fl r (o_fid o0)) = true ->
  denote orc delim ht occs r = Ok (r1, None) ->
  exists r2 xs,
    apply_entries orc delim ht ignore_unknown false groups es r q dfl =
      Ok (r2, entries_quotes (combine es occs) q, dfl, None) /\
    Forall2 (fun v x => convert orc (o_base o0) v e (zero_value e) = Ok (x, None)) vs xs /\
    rt_vals r2 (o_fid o0) = VSlice false xs /\ rt_vals r1 (o_fid o0) = VSlice false xs.
Proof.
  intros orc delim ht iu groups es occs r r1 q dfl o0 e vs HF Hid Hty Hvs Hne Harm Hd.
  pose proof (C13_entries_accumulate_like_flags orc delim ht iu groups es occs r q dfl HF) as K.
  rewrite Hd in K. destruct K as (r2 & L & V & _).
  destruct (C01_denote_slice_all orc delim ht o0 e occs vs r r1 Hid Hty Hvs Hne Hd) as (xs & Hxs & Hv & _).
  rewrite Harm in Hv. cbn [app] in Hv.
  exists r2, xs. split; [exact L|]. split; [exact Hxs|]. split; [rewrite V; exact Hv|exact Hv].
Qed.

(* ================================================================== *)
(* Realistic instances: the hypotheses are satisfiable                 *)
(* ================================================================== *)
Module EquivDemo.
  Import SpellSpec.Demo DenoteSpec.DenoteDemo.

  (* the parser of DenoteSpec.DenoteDemo:
       -n/--name string, -a/--all bool, -b/--brief bool, -h/--help, -é/--etat string,
       -I/--include []string, -D/--define map[string]int, -c/--call func(int), --num int *)
  Definition d_fold_from (r : rt) (occs : list occ) := denote demo_orc (pc_nsdelim demo_cfg) demo_help occs r.
  Definition x_loop (args : list str) (r : rt) :=
    run_loop demo_cfg demo_orc d_root demo_help (S (length args)) (d_pst args) r.

  (* ---- 1. two spellings of the same occurrences:
         --name=bob -Ia --num 7 -b   versus   -nbob --include=a --num=7 --brief *)
  Definition x_occs : list occ :=
    [ (demo_oc o_name, Some (s2l "bob")); (demo_oc o_inc, Some (s2l "a"));
      (demo_oc o_num, Some (s2l "7")); (demo_oc o_brief, None) ].
  Definition x_toks1 : list str :=
    [ s2l "--" ++ s2l "name" ++ [61] ++ s2l "bob"; 45 :: encode_rune 73 ++ s2l "a";
      s2l "--" ++ s2l "num"; s2l "7"; 45 :: encode_rune 98 ].
  Definition x_toks2 : list str :=
    [ 45 :: encode_rune 110 ++ s2l "bob"; s2l "--" ++ s2l "include" ++ [61] ++ s2l "a";
      s2l "--" ++ s2l "num" ++ [61] ++ s2l "7"; s2l "--" ++ s2l "brief" ].

  Example x_toks_text :
    x_toks1 = [s2l "--name=bob"; s2l "-Ia"; s2l "--num"; s2l "7"; s2l "-b"] /\
    x_toks2 = [s2l "-nbob"; s2l "--include=a"; s2l "--num=7"; s2l "--brief"].
  Proof. vm_compute. split; reflexivity. Qed.

  Example x_spells1 : spells d_lk x_toks1 x_occs.
  Proof.
    unfold x_toks1, x_occs.
    apply (spells_cons d_lk [_]); [apply (sp_long_eq d_lk (s2l "name") (s2l "bob")); side|].
    apply (spells_cons d_lk [_]); [apply (sp_short_concat d_lk 73 (s2l "a")); side|].
    apply (spells_cons d_lk [_; _]); [apply (sp_long_sep d_lk (s2l "num") (s2l "7")); side|].
    apply (spells_cons d_lk [_]); [apply (sp_short_flag d_lk 98); side|].
    apply spells_nil.
  Qed.
  Example x_spells2 : spells d_lk x_toks2 x_occs.
  Proof.
    unfold x_toks2, x_occs.
    apply (spells_cons d_lk [_]); [apply (sp_short_concat d_lk 110 (s2l "bob")); side|].
    apply (spells_cons d_lk [_]); [apply (sp_long_eq d_lk (s2l "include") (s2l "a")); side|].
    apply (spells_cons d_lk [_]); [apply (sp_long_eq d_lk (s2l "num") (s2l "7")); side|].
    apply (spells_cons d_lk [_]); [apply (sp_long_flag d_lk (s2l "brief")); side|].
    apply spells_nil.
  Qed.

  (* the theorem, instantiated *)
  Example x_same_outcome :
    same_outcome demo_cfg demo_orc demo_help d_lk x_occs d_rt (d_pst x_toks1)
                 (x_loop x_toks1 d_rt) (x_loop x_toks2 d_rt).
  Proof.
    apply (C02_same_occurrences_same_outcome demo_cfg demo_orc d_root demo_help d_lk x_toks1 x_toks2 x_occs
             x_spells1 x_spells2); try reflexivity; cbn [length x_toks1 x_toks2]; lia.
  Qed.

  (* ... and observed: the same values, bookkeeping and parser state *)
  Example x_observed :
    match x_loop x_toks1 d_rt, x_loop x_toks2 d_rt with
    | Ok (s1', r1'), Ok (s2', r2') =>
      obs_rt r1' = obs_rt r2' /\ ps_args s1' = [] /\ ps_args s2' = [] /\ ps_err s1' = None /\ ps_err s2' = None /\
      map (rt_vals r1') [0; 2; 5; 8]%nat =
        [VStr (s2l "bob"); VBool true; VSlice false [VStr (s2l "a")]; VInt 7] /\
      ps_arg s1' = s2l "-b" /\ ps_arg s2' = s2l "--brief"
    | _, _ => False
    end.
  Proof. vm_compute. repeat split. Qed.

  (* ---- 2. swapping one spelling in a context:  --all [--num 7 | --num=7] -b ;
     and the failing variant  --all [--num x | --num=x] -b : same error, same pending -b *)
  Example y_swap_hyps :
    spell1 d_lk [s2l "--" ++ s2l "num"; s2l "7"] (demo_oc o_num, Some (s2l "7")) /\
    spell1 d_lk [s2l "--" ++ s2l "num" ++ [61] ++ s2l "7"] (demo_oc o_num, Some (s2l "7")) /\
    spell1 d_lk [s2l "--" ++ s2l "num"; s2l "x"] (demo_oc o_num, Some (s2l "x")) /\
    spell1 d_lk [s2l "--" ++ s2l "num" ++ [61] ++ s2l "x"] (demo_oc o_num, Some (s2l "x")) /\
    spells d_lk [s2l "--" ++ s2l "all"] [(demo_oc o_all, None)] /\
    spells d_lk [45 :: encode_rune 98] [(demo_oc o_brief, None)].
  Proof.
    split; [apply (sp_long_sep d_lk (s2l "num") (s2l "7")); side|].
    split; [apply (sp_long_eq d_lk (s2l "num") (s2l "7")); side|].
    split; [apply (sp_long_sep d_lk (s2l "num") (s2l "x")); side|].
    split; [apply (sp_long_eq d_lk (s2l "num") (s2l "x")); side|].
    split; apply spells_one; [apply (sp_long_flag d_lk (s2l "all")); side|apply (sp_short_flag d_lk 98); side].
  Qed.

  Definition y_toks (mid : list str) : list str := [s2l "--" ++ s2l "all"] ++ mid ++ [45 :: encode_rune 98].

  Example y_swap (v : str) :
    spell1 d_lk [s2l "--" ++ s2l "num"; v] (demo_oc o_num, Some v) ->
    spell1 d_lk [s2l "--" ++ s2l "num" ++ [61] ++ v] (demo_oc o_num, Some v) ->
    same_outcome demo_cfg demo_orc demo_help d_lk
                 ([(demo_oc o_all, None)] ++ (demo_oc o_num, Some v) :: [(demo_oc o_brief, None)]) d_rt
                 (d_pst (y_toks [s2l "--" ++ s2l "num"; v]))
                 (x_loop (y_toks [s2l "--" ++ s2l "num"; v]) d_rt)
                 (x_loop (y_toks [s2l "--" ++ s2l "num" ++ [61] ++ v]) d_rt).
  Proof.
    intros H1 H2. destruct y_swap_hyps as (_ & _ & _ & _ & Hpre & Hpost).
    apply (C02_spelling_swap demo_cfg demo_orc d_root demo_help d_lk _ _ _ _ _ _ _ H1 H2 Hpre Hpost);
      try reflexivity; cbn [length y_toks app]; lia.
  Qed.

  Example y_observed_error :
    match x_loop (y_toks [s2l "--" ++ s2l "num"; s2l "x"]) d_rt,
          x_loop (y_toks [s2l "--" ++ s2l "num" ++ [61] ++ s2l "x"]) d_rt with
    | Ok (s1', r1'), Ok (s2', r2') =>
      obs_rt r1' = obs_rt r2' /\ ps_args s1' = [s2l "-b"] /\ ps_args s2' = [s2l "-b"] /\
      ps_err s1' = ps_err s2' /\
      ps_err s1' = Some (EFlags ErrMarshal
        (s2l "invalid argument for flag `--num' (expected int): strconv.ParseInt: parsing ""x"": invalid syntax")) /\
      map (rt_vals r1') [1; 2; 8]%nat = [VBool true; VBool false; VInt 0]
    | _, _ => False
    end.
  Proof. vm_compute. repeat split. Qed.

  (* ---- 3. the cluster  -ab --name=bob  versus  -a -b --name=bob ;
     and with the help flag in the middle:  -ahb --name=bob  versus  -a -h -b --name=bob *)
  Example z_cluster_hyps :
    Forall2 (cluster_flag d_lk) [97; 98] [demo_oc o_all; demo_oc o_brief] /\
    Forall2 (cluster_flag d_lk) [97; 104; 98] [demo_oc o_all; demo_oc o_help; demo_oc o_brief] /\
    spells d_lk [s2l "--" ++ s2l "name" ++ [61] ++ s2l "bob"] [(demo_oc o_name, Some (s2l "bob"))] /\
    cluster_tok [97; 98] = s2l "-ab" /\ sep_toks [97; 98] = [s2l "-a"; s2l "-b"] /\
    cluster_tok [97; 104; 98] = s2l "-ahb" /\ sep_toks [97; 104; 98] = [s2l "-a"; s2l "-h"; s2l "-b"].
  Proof.
    assert (F : forall c o, In (c, o) [(97, o_all); (98, o_brief); (104, o_help)] -> cluster_flag d_lk c (demo_oc o)).
    { intros c o H. cbn [In] in H.
      repeat (destruct H as [H|H]; [injection H as <- <-; unfold cluster_flag; repeat split; side|]).
      destruct H. }
    split; [repeat (apply Forall2_cons; [apply F; cbn [In]; tauto|]); apply Forall2_nil|].
    split; [repeat (apply Forall2_cons; [apply F; cbn [In]; tauto|]); apply Forall2_nil|].
    split; [apply spells_one; apply (sp_long_eq d_lk (s2l "name") (s2l "bob")); side|].
    vm_compute. repeat split.
  Qed.

  Definition z_post : list str := [s2l "--" ++ s2l "name" ++ [61] ++ s2l "bob"].

  Example z_cluster (cs : list N) (ocs : list octx) : cs <> [] -> nth 1 cs 0 <> 61 ->
    Forall2 (cluster_flag d_lk) cs ocs ->
    cluster_outcome demo_cfg demo_orc demo_help d_lk cs ocs z_post [(demo_oc o_name, Some (s2l "bob"))] d_rt
                    (d_pst (cluster_tok cs :: z_post)) (d_pst (sep_toks cs ++ z_post))
                    (x_loop (cluster_tok cs :: z_post) d_rt) (x_loop (sep_toks cs ++ z_post) d_rt).
  Proof.
    intros Hne Hnth HF. destruct z_cluster_hyps as (_ & _ & Hpost & _).
    apply (C02_cluster_as_flags demo_cfg demo_orc d_root demo_help d_lk cs ocs z_post _ Hne Hnth HF Hpost);
      try reflexivity; lia.
  Qed.

  Example z_observed :
    (* all flags succeed: identical outcome *)
    match x_loop (cluster_tok [97; 98] :: z_post) d_rt, x_loop (sep_toks [97; 98] ++ z_post) d_rt with
    | Ok (s1', r1'), Ok (s2', r2') =>
      obs_rt r1' = obs_rt r2' /\ ps_args s1' = [] /\ ps_args s2' = [] /\ ps_err s1' = None /\ ps_err s2' = None /\
      map (rt_vals r1') [0; 1; 2]%nat = [VStr (s2l "bob"); VBool true; VBool true]
    | _, _ => False
    end /\
    (* the help flag in the middle: same state, same error; the cluster drops b with it, the
       separate token -b stays pending *)
    match x_loop (cluster_tok [97; 104; 98] :: z_post) d_rt, x_loop (sep_toks [97; 104; 98] ++ z_post) d_rt with
    | Ok (s1', r1'), Ok (s2', r2') =>
      obs_rt r1' = obs_rt r2' /\ ps_err s1' = Some (EFlags ErrHelp (s2l "usage")) /\ ps_err s2' = ps_err s1' /\
      ps_args s1' = [s2l "--name=bob"] /\ ps_args s2' = [s2l "-b"; s2l "--name=bob"] /\
      ps_arg s1' = s2l "-ahb" /\ ps_arg s2' = s2l "-h" /\
      map (rt_vals r1') [0; 1; 2]%nat = [VStr []; VBool true; VBool false]
    | _, _ => False
    end.
  Proof. vm_compute. repeat split. Qed.

  (* which branch of cluster_outcome applies in the two instances *)
  Example z_fold_cases :
    match d_fold (flag_occs [demo_oc o_all; demo_oc o_brief]),
          d_fold (flag_occs [demo_oc o_all; demo_oc o_help; demo_oc o_brief]) with
    | Ok (_, None), Ok (_, Some e) => e = EFlags ErrHelp (s2l "usage")
    | _, _ => False
    end.
  Proof. vm_compute. reflexivity. Qed.

  (* the cluster inside a context:  --num=7 -ab --name=bob  versus  --num=7 -a -b --name=bob *)
  Definition z_pre : list str := [s2l "--" ++ s2l "num" ++ [61] ++ s2l "7"].
  Example z_in_context :
    exists rm,
      d_fold [(demo_oc o_num, Some (s2l "7"))] = Ok (rm, None) /\
      cluster_outcome demo_cfg demo_orc demo_help d_lk [97; 98] [demo_oc o_all; demo_oc o_brief] z_post
                      [(demo_oc o_name, Some (s2l "bob"))] rm
                      (d_pst (z_pre ++ cluster_tok [97; 98] :: z_post))
                      (d_pst (z_pre ++ sep_toks [97; 98] ++ z_post))
                      (x_loop (z_pre ++ cluster_tok [97; 98] :: z_post) d_rt)
                      (x_loop (z_pre ++ sep_toks [97; 98] ++ z_post) d_rt).
  Proof.
    destruct z_cluster_hyps as (HF & _ & Hpost & _).
    assert (Hpre : spells d_lk z_pre [(demo_oc o_num, Some (s2l "7"))])
      by (apply spells_one; apply (sp_long_eq d_lk (s2l "num") (s2l "7")); side).
    destruct (d_fold [(demo_oc o_num, Some (s2l "7"))]) as [[rm [e|]]|e|w] eqn:E;
      try (exfalso; vm_compute in E; discriminate E).
    exists rm. split; [reflexivity|].
    apply (C02_cluster_in_context demo_cfg demo_orc d_root demo_help d_lk z_pre _ [97; 98] _ z_post _
             ltac:(discriminate) ltac:(cbn [nth]; lia) HF Hpre Hpost); try reflexivity; try exact E; cbn [length app]; lia.
  Qed.

  (* ---- why C02_cluster_as_flags assumes that the SECOND rune of the cluster is not '=':
     with a flag whose short name is '=' the token  -a=  is not a cluster but  -a  with the
     (empty) inline argument, which a bool flag rejects, whereas  -a -=  sets both flags *)
  Definition o_eq := demo_opt 9 61 (s2l "eq") (TScalar KBool) false.
  Definition q_root : command :=
    Command (demo_cinfo (s2l "demo") false) (Group demo_ginfo [o_all; o_eq] []) [] [].
  Definition q_lk : lookup := make_lookup (pc_nsdelim demo_cfg) q_root [].
  Definition q_rt : rt :=
    {| rt_vals := fun _ => VBool false; rt_fl := fun _ => oflags0; rt_active := []; rt_logs := logs0 |}.
  Definition q_loop (args : list str) :=
    run_loop demo_cfg demo_orc q_root demo_help (S (length args)) (initial_pst demo_cfg q_root args) q_rt.
  Example cluster_second_rune_counterexample :
    Forall2 (cluster_flag q_lk) [97; 61] [demo_oc o_all; demo_oc o_eq] /\
    cluster_tok [97; 61] = s2l "-a=" /\ sep_toks [97; 61] = [s2l "-a"; s2l "-="] /\
    match q_loop [cluster_tok [97; 61]], q_loop (sep_toks [97; 61]) with
    | Ok (s1', r1'), Ok (s2', r2') =>
      ps_err s1' = Some (EFlags ErrNoArgumentForBool (s2l "bool flag `-a, --all' cannot have an argument")) /\
      map (rt_vals r1') [1; 9]%nat = [VBool false; VBool false] /\
      ps_err s2' = None /\ map (rt_vals r2') [1; 9]%nat = [VBool true; VBool true]
    | _, _ => False
    end.
  Proof.
    split.
    { repeat (apply Forall2_cons; [unfold cluster_flag; repeat split; side|]). apply Forall2_nil. }
    vm_compute. repeat split.
  Qed.

  (* ================================================================ *)
  (* C13: a slice option given twice in the INI text and twice on the   *)
  (* command line                                                       *)
  (* ================================================================ *)
  (*   include = a                                                      *)
  (*   include = "b c"                                                  *)
  Definition i_text : str := s2l "include = a" ++ [10] ++ s2l "include = ""b c""" ++ [10].
  Definition i_e1 : ini_entry := {| ie_name := s2l "include"; ie_value := s2l "a"; ie_quoted := false; ie_line := 1 |}.
  Definition i_e2 : ini_entry := {| ie_name := s2l "include"; ie_value := s2l "b c"; ie_quoted := true; ie_line := 2 |}.
  Example i_read : read_ini i_text = Ok [([], [i_e1; i_e2])].
  Proof. vm_compute. reflexivity. Qed.

  (* the global section denotes the groups of the parser itself *)
  Definition i_groups : list gref := matching_groups d_root [].
  Definition i_occs : list occ := [(demo_oc o_inc, Some (s2l "a")); (demo_oc o_inc, Some (s2l "b c"))].
  (*   --include=a -I "b c"   (the second value still carries its quotes, as in the INI text) *)
  Definition i_toks : list str :=
    [s2l "--" ++ s2l "include" ++ [61] ++ s2l "a"; 45 :: encode_rune 73; s2l """b c"""].

  Example i_entry_occ : Forall2 (entry_occ (pc_nsdelim demo_cfg) i_groups) [i_e1; i_e2] i_occs.
  Proof. repeat (apply Forall2_cons; [split; vm_compute; reflexivity|]). apply Forall2_nil. Qed.

  Example i_spells : spells d_lk i_toks i_occs.
  Proof.
    unfold i_toks, i_occs.
    apply (spells_cons d_lk [_]); [apply (sp_long_eq d_lk (s2l "include") (s2l "a")); side|].
    apply (spells_cons d_lk [_; _]); [apply (sp_short_sep d_lk 73 (s2l """b c""")); side|].
    apply spells_nil.
  Qed.

  (* the state in which IniParser.parse applies the entries: clear-before-set armed for
     every option (the prologue of ini_apply) *)
  Definition i_rt : rt :=
    fold_left (fun r oc => let fid := o_fid (oc_opt oc) in
                           let fl := rt_fl r fid in
                           set_fl r fid (fl_with fl (f_isset fl) (f_isdefault fl) (f_prevent fl) true))
              (tree_octxs d_root) d_rt.

  (* 4: the first entry is Option.Set with the value text "a" *)
  Example i_entry_is_set :
    resolve_entry (pc_nsdelim demo_cfg) i_groups (ie_name i_e1) = Some (demo_oc o_inc) /\
    entry_arg o_inc i_e1 = inl (Some (s2l "a")) /\ entry_arg o_inc i_e2 = inl (Some (s2l "b c")) /\
    entry_quoted o_inc i_e1 = false /\ entry_quoted o_inc i_e2 = true /\
    match opt_set demo_orc (pc_nsdelim demo_cfg) demo_help (demo_oc o_inc) (Some (s2l "a")) i_rt,
          apply_entry demo_orc (pc_nsdelim demo_cfg) demo_help false false i_groups i_e1 i_rt [] [] with
    | Ok (r1, None), Ok (r2, q, dfl, None) =>
      rt_vals r1 5%nat = VSlice false [VStr (s2l "a")] /\ rt_vals r2 5%nat = rt_vals r1 5%nat /\
      rt_fl r1 5%nat = set_flags (rt_fl i_rt 5%nat) /\
      rt_fl r2 5%nat = fl_set_ininame (rt_fl r1 5%nat) (s2l "include") /\ q = [(5%nat, false)] /\ dfl = []
    | _, _ => False
    end.
  Proof. vm_compute. repeat split. Qed.

  (* hypotheses of C13_slice_entries_accumulate *)
  Example i_slice_hyps :
    fid_identifies o_inc i_occs /\ o_ty o_inc = TSlice (TScalar KString) /\
    map snd (occs_of (o_fid o_inc) i_occs) = map Some [s2l "a"; s2l "b c"] /\
    f_clearref (rt_fl i_rt (o_fid o_inc)) = true /\
    exists r1, d_fold_from i_rt i_occs = Ok (r1, None).
  Proof.
    split.
    { intros oc a Hin Hf. cbn [In i_occs] in Hin.
      repeat (destruct Hin as [Hin|Hin]; [injection Hin as <- <-; reflexivity|]). destruct Hin. }
    split; [reflexivity|]. split; [reflexivity|]. split; [reflexivity|].
    eexists. vm_compute. reflexivity.
  Qed.

  (* 5 / corollary, instantiated *)
  Example i_section_equals_flags :=
    C13_section_equals_flags demo_cfg demo_orc d_root demo_help false i_groups [i_e1; i_e2] i_occs i_toks
      (S (length i_toks)) (d_pst i_toks) i_rt [] [] i_entry_occ i_spells eq_refl (Nat.lt_succ_diag_r _).

  (* observed: the INI entries, the command line, and the whole IniParser.parse from the
     unarmed state all leave  Include = ["a", "b c"]  *)
  Example i_observed :
    match x_loop i_toks i_rt,
          apply_entries demo_orc (pc_nsdelim demo_cfg) demo_help false false i_groups [i_e1; i_e2] i_rt [] [],
          ini_apply demo_orc (pc_nsdelim demo_cfg) demo_help false false d_root [([], [i_e1; i_e2])] d_rt,
          d_fold_from i_rt i_occs
    with
    | Ok (s', r1), Ok (r2, q2, dfl2, None), Ok (r3, None), Ok (r4, None) =>
      ps_err s' = None /\ ps_args s' = [] /\
      rt_vals r1 5%nat = VSlice false [VStr (s2l "a"); VStr (s2l "b c")] /\
      map (rt_vals r2) [0; 1; 2; 4; 5; 6; 8]%nat = map (rt_vals r1) [0; 1; 2; 4; 5; 6; 8]%nat /\
      map (rt_vals r3) [0; 1; 2; 4; 5; 6; 8]%nat = map (rt_vals r1) [0; 1; 2; 4; 5; 6; 8]%nat /\
      map (rt_vals r4) [0; 1; 2; 4; 5; 6; 8]%nat = map (rt_vals r1) [0; 1; 2; 4; 5; 6; 8]%nat /\
      (* bookkeeping: identical except for the INI name *)
      fl_set_ininame (rt_fl r2 5%nat) [] = fl_set_ininame (rt_fl r1 5%nat) [] /\
      f_isset (rt_fl r1 5%nat) = true /\ f_prevent (rt_fl r1 5%nat) = true /\ f_clearref (rt_fl r1 5%nat) = false /\
      f_ininame (rt_fl r1 5%nat) = [] /\ f_ininame (rt_fl r2 5%nat) = s2l "include" /\
      q2 = [(5%nat, false)] /\ dfl2 = []
    | _, _, _, _ => False
    end.
  Proof. vm_compute. repeat split. Qed.

  (* ---- why the error case of C13_entries_accumulate_like_flags / C13_section_equals_flags relates
     the two errors by [err_sim] (equal up to the text of an ErrHelp) rather than by equality:
     the help text is rendered from the runtime state by the (abstract) function [ht]; a rendering
     that shows the recorded INI names sees the name recorded for the first entry
         name = x
         help =
     whereas in the fold of Option.Set no INI name is recorded *)
  Definition ht_names (r : rt) : str := f_ininame (rt_fl r 0%nat).
  Definition h_e1 : ini_entry := {| ie_name := s2l "name"; ie_value := s2l "x"; ie_quoted := false; ie_line := 1 |}.
  Definition h_e2 : ini_entry := {| ie_name := s2l "help"; ie_value := []; ie_quoted := false; ie_line := 2 |}.
  Example help_text_counterexample :
    Forall2 (entry_occ (pc_nsdelim demo_cfg) i_groups) [h_e1; h_e2]
            [(demo_oc o_name, Some (s2l "x")); (demo_oc o_help, None)] /\
    match denote demo_orc (pc_nsdelim demo_cfg) ht_names
                 [(demo_oc o_name, Some (s2l "x")); (demo_oc o_help, None)] d_rt,
          apply_entries demo_orc (pc_nsdelim demo_cfg) ht_names false false i_groups [h_e1; h_e2] d_rt [] [] with
    | Ok (_, Some er), Ok (_, _, _, Some ier) =>
      er = EFlags ErrHelp [] /\ ier = EIni 2 (s2l "name") /\ ier <> EIni 2 (err_text er)
    | _, _ => False
    end.
  Proof.
    split; [repeat (apply Forall2_cons; [split; vm_compute; reflexivity|]); apply Forall2_nil|].
    vm_compute. split; [reflexivity|]. split; [reflexivity|discriminate].
  Qed.
End EquivDemo.

Print Assumptions denote_first_error_unique.
Print Assumptions C02_same_occurrences_same_outcome.
Print Assumptions C02_spelling_swap.
Print Assumptions C02_cluster_as_flags.
Print Assumptions C02_cluster_in_context.
Print Assumptions C13_entry_is_set.
Print Assumptions C13_entries_accumulate_like_flags.
Print Assumptions C13_slice_entries_accumulate.
Print Assumptions C13_section_equals_flags.
