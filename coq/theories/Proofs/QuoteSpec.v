(* strconv.Quote / strconv.Unquote round trip on the model (Golib/Strconv.v), for
   ALL byte strings (valid UTF-8 or not), and the UTF-8 lemmas it needs.
   Supports C02 (quoted spellings), C12 (INI round trip), C19 (tag values). *)
From GoFlags Require Import Base.Str Base.Utf8 Golib.Strings Golib.Strconv.
From GoFlags Require Import Proofs.QuoteUtf8 Proofs.QuoteEsc.
From Coq Require Import Lia.
Open Scope N_scope.

Definition bytes_ok (s : str) : Prop := forall c, In c s -> c < 256.

(* ---- auxiliary development ---- *)

Lemma bytes_ok_skipn n s : bytes_ok s -> bytes_ok (skipn n s).
Proof. intros H c Hc. apply H. rewrite <- (firstn_skipn n s). apply in_or_app; right; exact Hc. Qed.

(* suffix-recursive presentation of quote_body *)
Fixpoint qb (fuel : nat) (s : str) : str :=
  match fuel with
  | O => []
  | S f =>
    match s with
    | [] => []
    | b :: _ => let '(r, w) := decode_rune s in esc1 b r w ++ qb f (skipn w s)
    end
  end.

Lemma qb_nil n : qb n [] = [].
Proof. destruct n; reflexivity. Qed.

Lemma qb_cons n b t r w : decode_rune (b :: t) = (r, w) ->
  qb (S n) (b :: t) = esc1 b r w ++ qb n (skipn w (b :: t)).
Proof. intros H. cbn [qb]. rewrite H. reflexivity. Qed.

Definition qstep (whole : str) (x : nat * N * nat) : str :=
  let '(off, r, w) := x in
  if N.eqb r rune_error && Nat.eqb w 1 then bs :: 120 :: hex2 (nth off whole 0)
  else escaped_rune r.

Lemma flat_map_range_qb n : forall pre suf,
  flat_map (qstep (pre ++ suf)) (range_fuel n (length pre) suf) = qb n suf.
Proof.
  induction n as [|n IH]; intros pre suf; [reflexivity|].
  destruct suf as [|b t]; [reflexivity|].
  cbn [range_fuel]. destruct (decode_rune (b :: t)) as [r w] eqn:E.
  rewrite (qb_cons _ _ _ _ _ E). cbn [flat_map]. f_equal.
  - unfold qstep, esc1. rewrite app_nth2, Nat.sub_diag by lia. reflexivity.
  - assert (Hw: (w <= length (b :: t))%nat) by (apply (dec_width _ _ _ (decode_dec _ _ _ E)); discriminate).
    specialize (IH (pre ++ firstn w (b :: t)) (skipn w (b :: t))).
    rewrite <- app_assoc, firstn_skipn, app_length, firstn_length, Nat.min_l in IH by exact Hw.
    exact IH.
Qed.

Lemma quote_body_qb s : quote_body s = qb (length s) s.
Proof. exact (flat_map_range_qb (length s) [] s). Qed.

Lemma unquote_loop_step f c t acc :
  unquote_loop (S f) (c :: t) acc =
  if N.eqb c dq then Some (rev acc, c :: t)
  else if N.eqb c 10 then None
  else match unquote_char (c :: t) with
       | Some (bytes, rest) => unquote_loop f rest (rev bytes ++ acc)
       | None => None
       end.
Proof. reflexivity. Qed.

(* head of an escape: non-empty, neither a double quote nor a newline *)
Lemma esc1_head b t r w :
  bytes_ok (b :: t) -> dec (b :: t) r w ->
  exists h e', esc1 b r w = h :: e' /\ h <> dq /\ h <> 10.
Proof.
  intros Hok Hd. destruct (esc1_spec b t r w Hok Hd) as (_ & H10 & Hsh).
  assert (Hw: (1 <= w)%nat) by (apply (dec_width _ _ _ Hd); discriminate).
  destruct Hsh as [(e' & E)|(E & H34)].
  - exists 92, e'. rewrite E. repeat split; discriminate.
  - destruct (esc1 b r w) as [|h e'] eqn:E'.
    + destruct w; [lia|discriminate E].
    + exists h, e'. split; [reflexivity|]. split; intros ->.
      * apply H34; left; reflexivity.
      * apply H10; left; reflexivity.
Qed.

Lemma loop_ok n : forall s, (length s <= n)%nat -> bytes_ok s ->
  forall fuel acc tl, (length (qb n s) < fuel)%nat ->
  unquote_loop fuel (qb n s ++ dq :: tl) acc = Some (rev acc ++ s, dq :: tl).
Proof.
  induction n as [|n IH]; intros s Hlen Hok fuel acc tl Hf.
  - destruct s; [|cbn [length] in Hlen; lia]. destruct fuel; [cbn [qb length] in Hf; lia|].
    cbn [qb app]. rewrite unquote_loop_step. rewrite N.eqb_refl, app_nil_r. reflexivity.
  - destruct s as [|b t].
    + destruct fuel; [cbn [qb length] in Hf; lia|].
      cbn [qb app]. rewrite unquote_loop_step. rewrite N.eqb_refl, app_nil_r. reflexivity.
    + destruct (decode_rune (b :: t)) as [r w] eqn:E.
      pose proof (decode_dec _ _ _ E) as Hd.
      rewrite (qb_cons _ _ _ _ _ E) in *.
      destruct (dec_width _ _ _ Hd ltac:(discriminate)) as [Hw1 Hw2].
      destruct (esc1_spec b t r w Hok Hd) as (Huq & _ & _).
      destruct (esc1_head b t r w Hok Hd) as (h & e' & Eh & Hdq & Hnl).
      rewrite <- app_assoc. specialize (Huq (qb n (skipn w (b :: t)) ++ dq :: tl)).
      rewrite app_length in Hf.
      rewrite Eh in *. cbn [app length] in *.
      destruct fuel as [|f]; [lia|].
      rewrite unquote_loop_step.
      destruct (N.eqb_spec h dq); [contradiction|].
      destruct (N.eqb_spec h 10); [contradiction|].
      rewrite Huq.
      rewrite IH.
      * rewrite rev_app_distr, rev_involutive, <- app_assoc, firstn_skipn. reflexivity.
      * rewrite skipn_length. cbn [length] in *. lia.
      * apply bytes_ok_skipn; exact Hok.
      * lia.
Qed.

(* fast path: if the text before the first double quote has no backslash, that
   quote is the closing one and the body is the source string itself *)
Lemma index_byte_app_notin p x c : ~ In c p ->
  index_byte (p ++ x) c = option_map (Nat.add (length p)) (index_byte x c).
Proof.
  induction p as [|a p IH]; intros Hn.
  - cbn [app length]. destruct (index_byte x c); reflexivity.
  - cbn [app index_byte length]. destruct (N.eqb_spec a c) as [->|Hne].
    + exfalso; apply Hn; left; reflexivity.
    + rewrite IH by (intros Hin; apply Hn; right; exact Hin).
      destruct (index_byte x c); reflexivity.
Qed.

Lemma fast_ok n : forall s, (length s <= n)%nat -> bytes_ok s ->
  forall e, index_byte (qb n s ++ [dq]) dq = Some e ->
  existsb (N.eqb bs) (firstn e (qb n s ++ [dq])) = false ->
  firstn e (qb n s ++ [dq]) = s /\ skipn (S e) (qb n s ++ [dq]) = [].
Proof.
  induction n as [|n IH]; intros s Hlen Hok e He Hb.
  - destruct s; [|cbn [length] in Hlen; lia]. cbn [qb app index_byte] in *.
    rewrite N.eqb_refl in He. injection He as <-. split; reflexivity.
  - destruct s as [|b t].
    + cbn [qb app index_byte] in *.
      rewrite N.eqb_refl in He. injection He as <-. split; reflexivity.
    + destruct (decode_rune (b :: t)) as [r w] eqn:E.
      pose proof (decode_dec _ _ _ E) as Hd.
      rewrite (qb_cons _ _ _ _ _ E) in *.
      destruct (dec_width _ _ _ Hd ltac:(discriminate)) as [Hw1 Hw2].
      destruct (esc1_spec b t r w Hok Hd) as (_ & _ & Hsh).
      rewrite <- app_assoc in *.
      destruct Hsh as [(e' & Ee)|(Ee & H34)].
      * exfalso. rewrite Ee in *. cbn [app index_byte] in He.
        change (N.eqb 92 dq) with false in He. cbv iota in He.
        destruct (index_byte (e' ++ qb n (skipn w (b :: t)) ++ [dq]) dq); [|discriminate He].
        injection He as <-. cbn [app firstn existsb] in Hb.
        change (N.eqb bs 92) with true in Hb. discriminate Hb.
      * rewrite index_byte_app_notin in He by exact H34.
        destruct (index_byte (qb n (skipn w (b :: t)) ++ [dq]) dq) as [e1|] eqn:E1; [|discriminate He].
        injection He as <-.
        rewrite firstn_app_2 in *. rewrite existsb_app in Hb.
        apply orb_false_elim in Hb. destruct Hb as [_ Hb].
        destruct (IH (skipn w (b :: t))) with (e := e1) as [IH1 IH2]; auto.
        { rewrite skipn_length. cbn [length] in *. lia. }
        { apply bytes_ok_skipn; exact Hok. }
        split.
        -- rewrite IH1, Ee. apply firstn_skipn.
        -- replace (S (length (esc1 b r w) + e1)) with (length (esc1 b r w) + S e1)%nat by lia.
           rewrite skipn_app. rewrite skipn_all2 by lia.
           replace (length (esc1 b r w) + S e1 - length (esc1 b r w))%nat with (S e1) by lia.
           exact IH2.
Qed.

Lemma index_byte_last p c : exists e, index_byte (p ++ [c]) c = Some e.
Proof.
  induction p as [|a p [e IH]]; cbn [app index_byte].
  - rewrite N.eqb_refl. eauto.
  - destruct (N.eqb a c); [eauto|]. rewrite IH. cbn [option_map]. eauto.
Qed.

(* ---- the five stated results (statements unchanged, all proved) ---- *)

(* decoding a well-formed multi-byte sequence and re-encoding gives the same bytes *)
Lemma decode_encode : forall s r w,
  bytes_ok s -> decode_rune s = (r, w) -> (1 < w)%nat -> encode_rune r = firstn w s.
Proof. intros s r w _ H Hw. apply dec_encode; [apply decode_dec; exact H|exact Hw]. Qed.

(* the width is always between 1 and 4 for non-empty input and never exceeds the length *)
Lemma decode_width : forall s r w, s <> [] -> decode_rune s = (r, w) -> (1 <= w <= 4)%nat /\ (w <= length s)%nat.
Proof. intros s r w Hs H. apply (dec_width s r w); [apply decode_dec; exact H|exact Hs]. Qed.

(* main theorem: Unquote is a left inverse of Quote on every byte string *)
Theorem quote_unquote : forall s, bytes_ok s -> unquote (quote s) = Some s.
Proof.
  intros s Hok. unfold quote, unquote. rewrite quote_body_qb.
  change (negb (N.eqb dq dq)) with false. cbv iota.
  destruct (index_byte_last (qb (length s) s) dq) as [e He].
  destruct (qb (length s) s ++ [dq]) as [|c body'] eqn:Eb.
  { destruct (qb (length s) s); discriminate Eb. }
  rewrite <- Eb in *. clear Eb c body'.
  rewrite He.
  match goal with |- (if ?c then _ else _) = _ => destruct c eqn:Hc end.
  - apply andb_prop in Hc. destruct Hc as [Hc _]. apply andb_prop in Hc. destruct Hc as [Hc _].
    apply negb_true_iff in Hc.
    destruct (fast_ok (length s) s (le_n _) Hok e He Hc) as [H1 H2].
    rewrite H1, H2. reflexivity.
  - rewrite loop_ok; [reflexivity|apply le_n|exact Hok|].
    rewrite app_length. cbn [length]. lia.
Qed.

(* corollary used for tag values and INI values: the quoted form starts with a double quote *)
Lemma quote_starts_with_dq : forall s, exists body, quote s = 34 :: body.
Proof. intros s. eexists. reflexivity. Qed.

(* Quote never emits a raw newline or a raw double quote inside the literal body,
   so a quoted value stays on one line and scanners that look for the closing
   quote skipping backslash-escaped bytes find exactly the end of the literal *)
Lemma quote_body_no_newline : forall s, bytes_ok s -> ~ In 10 (quote_body s).
Proof.
  intros s Hok. rewrite quote_body_qb.
  assert (H: forall n s, bytes_ok s -> ~ In 10 (qb n s)).
  { clear. induction n as [|n IH]; intros s Hok; [intros []|].
    destruct s as [|b t]; [intros []|].
    destruct (decode_rune (b :: t)) as [r w] eqn:E.
    rewrite (qb_cons _ _ _ _ _ E). intros Hin. apply in_app_or in Hin. destruct Hin as [Hin|Hin].
    - destruct (esc1_spec b t r w Hok (decode_dec _ _ _ E)) as (_ & H10 & _). exact (H10 Hin).
    - exact (IH _ (bytes_ok_skipn _ _ Hok) Hin). }
  apply H; exact Hok.
Qed.

Print Assumptions decode_encode.
Print Assumptions decode_width.
Print Assumptions quote_unquote.
Print Assumptions quote_starts_with_dq.
Print Assumptions quote_body_no_newline.
