(* C19 - Declarations are read faithfully or rejected at setup.
   Statements only: each theorem re-states a lemma of Proofs.TagSpec Proofs.QuoteSpec verbatim and is closed by [exact]. *)
From GoFlags Require Import Base.Str Base.Utf8 Golib.Strings Golib.Strconv Model.Types Model.Tag Model.Scan Model.Lookup Model.Convert Model.State Model.Closest Model.Help Model.Parse Model.Ini Model.Complete.
From GoFlags Require Import Proofs.TagSpec Proofs.QuoteSpec.
Open Scope N_scope.

(* a tag is scanned or rejected with ErrTag: never a panic *)
Theorem C19_scanner_total :
  forall t : str,
         (exists m : tagmap, tag_scan t = Ok m) \/ (exists msg : str, tag_scan t = Err (EFlags ErrTag msg)).
Proof. exact @C19_tag_total. Qed.
Print Assumptions C19_scanner_total.

(* any legal tag (arbitrary quoted values incl. escapes, repeated keys, extra spaces) yields exactly its key/value lists *)
Theorem C19_tag_values_exact :
  forall (l : list (nat * (str * str))) (trail : nat),
         (forall (n : nat) (k v : str), In (n, (k, v)) l -> key_ok k /\ bytes_ok v) ->
         let m := tm_of (map snd l) [] in
         tag_scan (render_tag_sp l trail) = Ok m /\
         (forall k : str, tm_many m k = map snd (filter (fun kv : str * str => str_eqb (fst kv) k) (map snd l))) /\
         (forall k : str,
          tm_get m k = last (map snd (filter (fun kv : str * str => str_eqb (fst kv) k) (map snd l))) []) /\
         (forall k : str, tm_has m k = existsb (fun kv : str * str => str_eqb (fst kv) k) (map snd l)).
Proof. exact @C19_tag_roundtrip_spaces. Qed.
Print Assumptions C19_tag_values_exact.

Theorem C19_option_fields :
  forall (name : str) (m : tagmap) (ty : vtype) (fid : nat) (o : opt),
         make_opt name m ty fid = Ok (Some o) ->
         o_long o = tm_get m (s2l "long") /\
         o_desc o = tm_get m (s2l "description") /\
         o_default o = tm_many m (s2l "default") /\
         o_choices o = tm_many m (s2l "choice") /\
         o_optval o = tm_many m (s2l "optional-value") /\
         o_envkey o = tm_get m (s2l "env") /\
         o_envdelim o = tm_get m (s2l "env-delim") /\
         o_valname o = tm_get m (s2l "value-name") /\
         o_mask o = tm_get m (s2l "default-mask") /\
         o_ininame o = tm_get m (s2l "ini-name") /\
         o_required o = negb (is_falsy (tm_get m (s2l "required"))) /\
         o_optional o = negb (is_falsy (tm_get m (s2l "optional"))) /\
         o_hidden o = negb (is_falsy (tm_get m (s2l "hidden"))) /\
         o_noini o = nonempty (tm_get m (s2l "no-ini")) /\
         o_unquote o = negb (str_eqb (tm_get m (s2l "unquote")) (s2l "false")) /\
         o_base o = tm_get m (s2l "base") /\
         o_is_help o = false /\
         o_field o = name /\
         o_ty o = ty /\
         o_fid o = fid /\
         (tm_get m (s2l "short") = [] -> o_short o = 0) /\
         (rune_count (tm_get m (s2l "short")) = 1%nat ->
          o_short o = fst (decode_rune (tm_get m (s2l "short"))) /\
          runes (tm_get m (s2l "short")) = [o_short o]) /\
         o_short o =
         (if (rune_count (tm_get m (s2l "short")) =? 1)%nat
          then fst (decode_rune (tm_get m (s2l "short")))
          else 0) /\
         (rune_count (tm_get m (s2l "short")) <= 1)%nat /\
         nonempty (tm_get m (s2l "long")) || nonempty (tm_get m (s2l "short"))
         || nonempty (tm_get m (s2l "ini-name")) = true /\ vtype_is_bool ty && tm_has m (s2l "default") = false.
Proof. exact @C19_make_opt_faithful. Qed.
Print Assumptions C19_option_fields.

Theorem C19_not_an_option :
  forall (name : str) (m : tagmap) (ty : vtype) (fid : nat),
         make_opt name m ty fid = Ok None <->
         tm_get m (s2l "long") = [] /\ tm_get m (s2l "short") = [] /\ tm_get m (s2l "ini-name") = [].
Proof. exact @C19_make_opt_none. Qed.
Print Assumptions C19_not_an_option.

Theorem C19_short_name_too_long :
  forall (name : str) (m : tagmap) (ty : vtype) (fid : nat),
         (1 < rune_count (tm_get m (s2l "short")))%nat ->
         make_opt name m ty fid =
         Err
           (EFlags ErrShortNameTooLong
              (s2l "short names can only be 1 character long, not `" ++ tm_get m (s2l "short") ++ s2l "'")).
Proof. exact @C19_short_too_long. Qed.
Print Assumptions C19_short_name_too_long.

Theorem C19_default_on_boolean :
  forall (name : str) (m : tagmap) (ty : vtype) (fid : nat),
         vtype_is_bool ty = true ->
         tm_has m (s2l "default") = true ->
         (rune_count (tm_get m (s2l "short")) <= 1)%nat ->
         nonempty (tm_get m (s2l "long")) || nonempty (tm_get m (s2l "short"))
         || nonempty (tm_get m (s2l "ini-name")) = true ->
         exists msg : str, make_opt name m ty fid = Err (EFlags ErrInvalidTag msg).
Proof. exact @C19_bool_default. Qed.
Print Assumptions C19_default_on_boolean.

(* a declaration passes the duplicate check iff its namespaced long names and its short names are pairwise distinct *)
Theorem C19_duplicates_detected :
  forall (delim : str) (g : group),
         let ocs := group_octxs (group_depth g) [] [] g in
         (check_dups delim g = None <-> NoDup (lk delim ocs) /\ NoDup (sk ocs)) /\
         (check_dups delim g = None \/
          (exists msg : str, check_dups delim g = Some (EFlags ErrDuplicatedFlag msg))).
Proof. exact @C19_check_dups_iff. Qed.
Print Assumptions C19_duplicates_detected.

Theorem C19_duplicates_complete :
  forall (delim : str) (g : group) (i j : nat) (oc1 oc2 : octx),
         i <> j ->
         nth_error (group_octxs (group_depth g) [] [] g) i = Some oc1 ->
         nth_error (group_octxs (group_depth g) [] [] g) j = Some oc2 ->
         nonempty (o_long (oc_opt oc1)) = true /\
         nonempty (o_long (oc_opt oc2)) = true /\ long_name delim oc1 = long_name delim oc2 \/
         o_short (oc_opt oc1) <> 0 /\ o_short (oc_opt oc1) = o_short (oc_opt oc2) ->
         exists msg : str, check_dups delim g = Some (EFlags ErrDuplicatedFlag msg).
Proof. exact @C19_check_dups_complete_nth. Qed.
Print Assumptions C19_duplicates_complete.

(* ---- added by bin/mkprops (batch 2) ---- *)
From GoFlags Require Import Base.Str Base.Utf8 Golib.Strings Golib.Strconv Model.Types Model.Tag Model.Scan Model.Lookup Model.Convert Model.State Model.Closest Model.Help Model.Parse Model.Ini Model.Complete.
From GoFlags Require Import Proofs.RequiredSpec.

(* positional names, descriptions and counts are exactly the tag values *)
Theorem C19_positional_fields :
  forall (fs : list field) (req : bool) (acc acc' : sacc),
         scan_positional fs req acc = Ok acc' ->
         exists args : list arg,
           Forall2 arg_faithful fs args /\
           sa_args acc' = sa_args acc ++ args /\
           sa_argsreq acc' = sa_argsreq acc || req && fields_nonempty fs /\
           sa_opts acc' = sa_opts acc /\
           sa_groups acc' = sa_groups acc /\ sa_cmds acc' = sa_cmds acc /\ sa_attached acc' = sa_attached acc.
Proof. exact @C19_positional_faithful. Qed.
Print Assumptions C19_positional_fields.

Theorem C19_positional_counts :
  parse_req [] = ((-1)%Z, (-1)%Z) /\
         (forall (s : list N) (n : Z), ~ In 45 s -> dec32 s n -> parse_req s = (n, (-1)%Z)) /\
         (forall (a : list N) (b : str) (n m : Z),
          ~ In 45 a -> dec32 a n -> dec32 b m -> parse_req (a ++ 45 :: b) = (n, m)) /\
         (forall s : list N, s <> [] -> ~ In 45 s -> (forall n : Z, ~ dec32 s n) -> parse_req s = (1%Z, (-1)%Z)) /\
         (forall a b : list N, ~ In 45 a -> (forall n : Z, ~ dec32 a n) -> fst (parse_req (a ++ 45 :: b)) = 1%Z) /\
         (forall (a : list N) (b : str),
          ~ In 45 a -> (forall m : Z, ~ dec32 b m) -> snd (parse_req (a ++ 45 :: b)) = (-1)%Z) /\
         (forall (a b : list N) (n : Z), ~ In 45 a -> dec32 a n -> fst (parse_req (a ++ 45 :: b)) = n) /\
         (forall (a : list N) (b : str) (m : Z), ~ In 45 a -> dec32 b m -> snd (parse_req (a ++ 45 :: b)) = m).
Proof. exact @parse_req_spec. Qed.
Print Assumptions C19_positional_counts.

