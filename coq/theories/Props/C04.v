(* C04 - Parsing is total, contained and typed.  Statements only. *)
From GoFlags Require Import Base.Str Model.Types Model.State Model.Parse Proofs.FrameBase Proofs.FrameParse Proofs.ParseFrame.
Open Scope N_scope.

(* termination: one loop iteration that continues strictly shortens the pending
   argument list, so the fuel S (length argv) given by ParseArgs always suffices *)
Theorem C04_terminates : forall cfg orc root help_text fuel s r,
  (length (ps_args s) < fuel)%nat ->
  run_loop cfg orc root help_text fuel s r <> Panic (s2l "OUT-OF-FUEL").
Proof. exact run_loop_fuel. Qed.
Print Assumptions C04_terminates.

(* no panic: every slice/index/Repeat/nil-dereference of the Go code is a guarded,
   total operation in the model; the only Panic outcomes that exist carry one of the
   tags of [benign_panic] - a missing entry of the harness' float/duration oracle
   table, deliberately unmodelled behaviour, or a nil callback / nil *Custom handed
   in by the caller *)
Theorem C04_no_panic : forall cfg orc root help_text args r t,
  parse_body cfg orc root help_text args r = Panic t -> benign_panic t.
Proof. exact parse_body_panics. Qed.
Print Assumptions C04_no_panic.

(* output discipline: nothing is written unless PrintErrors is set and an error is
   returned; then exactly one write: help to stdout, anything else to stderr *)
Theorem C04_output : forall cfg orc root help_text args r r' res,
  parse_body cfg orc root help_text args r = Ok (r', res) ->
  l_out (rt_logs r') =
  l_out (rt_logs r) ++
  match pr_err res with
  | Some e => if po_print (pc_opts cfg)
              then [(match e with EFlags ErrHelp _ => true | _ => false end, err_text e ++ [10])]
              else []
  | None => []
  end.
Proof. exact C04_output_main. Qed.
Print Assumptions C04_output.

(* ---- added by bin/mkprops ---- *)
From GoFlags Require Import Base.Str Base.Utf8 Golib.Strings Golib.Strconv Model.Types Model.Tag Model.Scan Model.Lookup Model.Convert Model.State Model.Closest Model.Help Model.Parse Model.Ini Model.Complete.
From GoFlags Require Import Proofs.SpellSpec.

(* every rejection recorded by the loop is a typed *flags.Error of the documented type, or a foreign error from a positional conversion / the unknown-option handler *)
Theorem C04_typed :
  forall (cfg : pconfig) (orc : oracles) (root : command) (help_text : rt -> str) 
           (s : pst) (r : rt) (sr : step_res),
         step cfg orc root help_text s r = Ok sr ->
         ps_err (step_state sr) <> ps_err s ->
         exists e : err,
           ps_err (step_state sr) = Some e /\
           ((exists (t : errty) (m : str),
               e = EFlags t m /\
               In t
                 [ErrUnknownFlag; ErrExpectedArgument; ErrNoArgumentForBool; ErrMarshal; ErrInvalidChoice;
                  ErrHelp]) \/ (exists m : str, e = EForeign m)).
Proof. exact @C04_typed_errors. Qed.
Print Assumptions C04_typed.

Theorem C04_typed_loop :
  forall (cfg : pconfig) (orc : oracles) (root : command) (help_text : rt -> str) 
           (fuel : nat) (s : pst) (r : rt) (s' : pst) (r' : rt),
         run_loop cfg orc root help_text fuel s r = Ok (s', r') ->
         ps_err s' = ps_err s \/ (exists e : err, ps_err s' = Some e /\ is_loop_err e).
Proof. exact @C04_typed_errors_loop. Qed.
Print Assumptions C04_typed_loop.

(* ---- added by bin/mkprops (batch 2) ---- *)
From GoFlags Require Import Base.Str Base.Utf8 Golib.Strings Golib.Strconv Model.Types Model.Tag Model.Scan Model.Lookup Model.Convert Model.State Model.Closest Model.Help Model.Parse Model.Ini Model.Complete.
From GoFlags Require Import Proofs.IniPanicSpec.

(* including the prologue (default literals) of ParseArgs *)
Theorem C04_whole_parse_args_panics_benign :
  forall (cfg : pconfig) (orc : oracles) (w : Scenario.world) (args : list str) (t : str),
         Scenario.parse_args cfg orc w args = Panic t -> ParseFrame.benign_panic t.
Proof. exact @C04_prologue_panics_benign. Qed.
Print Assumptions C04_whole_parse_args_panics_benign.

Theorem C04_setup_error_returned_untouched :
  forall (cfg : pconfig) (orc : oracles) (w : Scenario.world) (args : list str) (e : err),
         Scenario.w_internal w = Some e ->
         Scenario.parse_args cfg orc w args = Ok (w, {| pr_ret := None; pr_err := Some e |}).
Proof. exact @C04_internal_error_returned. Qed.
Print Assumptions C04_setup_error_returned_untouched.

Theorem C04_completion_panics_benign :
  forall (cfg : pconfig) (orc : oracles) (w : Scenario.world) (args : list str) (t : str),
         Scenario.complete_args cfg orc w args = Panic t -> ParseFrame.benign_panic t.
Proof. exact @C04_complete_panics_benign. Qed.
Print Assumptions C04_completion_panics_benign.

