(* C07 - Unknown options are never silently accepted. *)
From GoFlags Require Import Base.Str Base.Utf8 Model.Types Model.Scan Model.Lookup Model.State Model.Parse Proofs.LookupSpec.
Open Scope N_scope.

(* lookup is by exact name: what is found carries exactly that qualified long name and
   is declared on the command chain reached so far *)
Theorem C07_lookup_exact : forall delim root path n oc,
  find_last (lk_long (make_lookup delim root path)) n = Some oc ->
  long_name delim oc = n /\ nonempty (o_long (oc_opt oc)) = true /\ In oc (chain_octxs root path).
Proof. exact lookup_long_exact. Qed.
Print Assumptions C07_lookup_exact.

Theorem C07_lookup_short_exact : forall delim root path n oc,
  find_last (lk_short (make_lookup delim root path)) n = Some oc ->
  n = encode_rune (o_short (oc_opt oc)) /\ o_short (oc_opt oc) <> 0 /\ In oc (chain_octxs root path).
Proof. exact lookup_short_exact. Qed.
Print Assumptions C07_lookup_short_exact.

(* an option defined only in a sibling command or in a command not yet named is unknown *)
Theorem C07_out_of_scope_is_unknown : forall delim root path n,
  (forall oc, In oc (chain_octxs root path) -> nonempty (o_long (oc_opt oc)) = true -> long_name delim oc <> n) ->
  find_last (lk_long (make_lookup delim root path)) n = None.
Proof. exact lookup_long_scope. Qed.
Print Assumptions C07_out_of_scope_is_unknown.

(* the three policies, one loop iteration *)
Theorem C07_fails : forall cfg orc root help_text s r a rest n arg,
  ps_args s = a :: rest -> argument_is_option a = true -> split_option a = (true, n, arg) ->
  find_last (lk_long (ps_lk s)) n = None ->
  po_ignore (pc_opts cfg) = false -> pc_handler cfg = HNone ->
  step cfg orc root help_text s r = Ok (Break (ps_with_err (ps_with_args s a rest) (Some (unknown_flag n))) r).
Proof. exact C07_unknown_long_fails. Qed.
Print Assumptions C07_fails.

Theorem C07_ignored_passes_verbatim : forall cfg orc root help_text s r a rest n arg,
  ps_args s = a :: rest -> argument_is_option a = true -> split_option a = (true, n, arg) ->
  find_last (lk_long (ps_lk s)) n = None ->
  po_ignore (pc_opts cfg) = true ->
  step cfg orc root help_text s r =
  bind (add_args orc [a] (ps_with_args s a rest) r) (fun x => let '(s2, r2, _) := x in Ok (Continue s2 r2)).
Proof. exact C07_unknown_long_ignored. Qed.
Print Assumptions C07_ignored_passes_verbatim.

Theorem C07_handler_called_once : forall cfg orc root help_text s r a rest n arg,
  ps_args s = a :: rest -> argument_is_option a = true -> split_option a = (true, n, arg) ->
  find_last (lk_long (ps_lk s)) n = None ->
  po_ignore (pc_opts cfg) = false -> pc_handler cfg <> HNone ->
  step cfg orc root help_text s r =
  Ok (let r' := log_unknown r n arg rest in
      match run_handler cfg n arg rest with
      | inr he => Break (ps_with_err (ps_with_args s a rest) (Some he)) r'
      | inl newargs => Continue (ps_with_args (ps_with_args s a rest) a newargs) r'
      end).
Proof. exact C07_unknown_long_handler. Qed.
Print Assumptions C07_handler_called_once.

(* an unknown rune inside a short cluster is reported naming exactly that rune *)
Theorem C07_cluster_unknown_rune : forall cfg orc help_text total i c w rs argument s r,
  find_last (lk_short (ps_lk s)) (encode_rune c) = None ->
  short_loop cfg orc help_text total ((i, c, w) :: rs) argument s r = Ok (s, r, Some (unknown_flag (encode_rune c))).
Proof. exact short_loop_unknown_first. Qed.
Print Assumptions C07_cluster_unknown_rune.

(* ---- added by bin/mkprops (batch 2) ---- *)
From GoFlags Require Import Base.Str Base.Utf8 Golib.Strings Golib.Strconv Model.Types Model.Tag Model.Scan Model.Lookup Model.Convert Model.State Model.Closest Model.Help Model.Parse Model.Ini Model.Complete.
From GoFlags Require Import Proofs.UnknownSpec.

(* END TO END, no policy: the loop stops at the first unknown option with ErrUnknownFlag naming it; everything before it is applied, nothing after it *)
Theorem C07_loop_fails_at_the_first_unknown_option :
  forall (cfg : pconfig) (orc : oracles) (root : command) (ht : rt -> str) (lk : lookup)
           (pre post : list str) (occs_pre : list DenoteSpec.occ) (u name : str) (arg0 : option str)
           (fuel : nat) (s : pst) (r r1 : rt),
         po_ignore (pc_opts cfg) = false ->
         pc_handler cfg = HNone ->
         DenoteSpec.spells lk pre occs_pre ->
         unknown_tok lk u name arg0 ->
         ps_lk s = lk ->
         ps_args s = pre ++ [u] ++ post ->
         (Datatypes.length (pre ++ [u] ++ post) < fuel)%nat ->
         DenoteSpec.denote orc (pc_nsdelim cfg) ht occs_pre r = Ok (r1, None) ->
         exists s' : pst,
           run_loop cfg orc root ht fuel s r = Ok (s', r1) /\
           ps_err s' = Some (EFlags ErrUnknownFlag (s2l "unknown flag `" ++ name ++ s2l "'")) /\
           ps_args s' = post /\
           ps_arg s' = u /\
           ps_ret s' = ps_ret s /\ ps_pos s' = ps_pos s /\ ps_cmd s' = ps_cmd s /\ ps_lk s' = ps_lk s.
Proof. exact @C07_loop_fails_at_first_unknown. Qed.
Print Assumptions C07_loop_fails_at_the_first_unknown_option.

Theorem C07_ParseArgs_fails_at_the_first_unknown_option :
  forall (cfg : pconfig) (orc : oracles) (root : command) (ht : rt -> str) (pre post : list str)
           (occs_pre : list DenoteSpec.occ) (u name : str) (arg : option str) (r r1 : rt),
         let lk := make_lookup (pc_nsdelim cfg) root [] in
         let e := EFlags ErrUnknownFlag (s2l "unknown flag `" ++ name ++ s2l "'") in
         po_ignore (pc_opts cfg) = false ->
         pc_handler cfg = HNone ->
         DenoteSpec.spells lk pre occs_pre ->
         unknown_tok lk u name arg ->
         DenoteSpec.denote orc (pc_nsdelim cfg) ht occs_pre r = Ok (r1, None) ->
         parse_body cfg orc root ht (pre ++ [u] ++ post) r =
         Ok (print_error cfg r1 e, {| pr_ret := Some (u :: post); pr_err := Some e |}).
Proof. exact @C07_parse_fails_at_first_unknown. Qed.
Print Assumptions C07_ParseArgs_fails_at_the_first_unknown_option.

(* END TO END, IgnoreUnknown (whatever handler): the unknown tokens are exactly the returned arguments, verbatim and in order; the known occurrences are applied as their fold; no handler call *)
Theorem C07_loop_passes_every_unknown_option_through :
  forall (cfg : pconfig) (orc : oracles) (root : command) (ht : rt -> str) (lk : lookup)
           (toks : list str) (items : list item),
         umixed lk toks items ->
         forall (fuel : nat) (s : pst) (r rf : rt),
         po_ignore (pc_opts cfg) = true ->
         ps_lk s = lk ->
         ps_args s = toks ->
         ps_pos s = [] ->
         (Datatypes.length toks < fuel)%nat ->
         DenoteSpec.denote orc (pc_nsdelim cfg) ht (knowns items) r = Ok (rf, None) ->
         exists s' : pst,
           run_loop cfg orc root ht fuel s r = Ok (s', rf) /\
           ps_ret s' = ps_ret s ++ utoks items /\
           ps_args s' = [] /\
           ps_arg s' = last toks (ps_arg s) /\
           ps_pos s' = [] /\
           ps_err s' = ps_err s /\
           ps_cmd s' = ps_cmd s /\ ps_lk s' = ps_lk s /\ l_unknown (rt_logs rf) = l_unknown (rt_logs r).
Proof. exact @C07_loop_ignores_all_unknown. Qed.
Print Assumptions C07_loop_passes_every_unknown_option_through.

(* END TO END, handler: one call per unknown token, in order, with its name, its inline argument and exactly the tokens after it; nothing else changes *)
Theorem C07_loop_calls_the_handler_once_per_unknown_option :
  forall (cfg : pconfig) (orc : oracles) (root : command) (ht : rt -> str) (lk : lookup)
           (toks : list str) (items : list item) (ents : list uentry),
         ulog lk toks items ents ->
         forall (fuel : nat) (s : pst) (r rf : rt),
         po_ignore (pc_opts cfg) = false ->
         pc_handler cfg = HIdentity ->
         ps_lk s = lk ->
         ps_args s = toks ->
         (Datatypes.length toks < fuel)%nat ->
         DenoteSpec.denote orc (pc_nsdelim cfg) ht (knowns items) r = Ok (rf, None) ->
         exists (s' : pst) (r' : rt),
           run_loop cfg orc root ht fuel s r = Ok (s', r') /\
           r' = add_unk rf ents /\
           l_unknown (rt_logs r') = l_unknown (rt_logs r) ++ ents /\
           rt_vals r' = rt_vals rf /\
           rt_fl r' = rt_fl rf /\
           rt_active r' = rt_active rf /\
           l_calls (rt_logs r') = l_calls (rt_logs rf) /\
           l_exec (rt_logs r') = l_exec (rt_logs rf) /\
           l_out (rt_logs r') = l_out (rt_logs rf) /\
           ps_args s' = [] /\
           ps_arg s' = last toks (ps_arg s) /\
           ps_ret s' = ps_ret s /\
           ps_pos s' = ps_pos s /\ ps_err s' = ps_err s /\ ps_cmd s' = ps_cmd s /\ ps_lk s' = ps_lk s.
Proof. exact @C07_loop_handler_identity. Qed.
Print Assumptions C07_loop_calls_the_handler_once_per_unknown_option.

(* the slice the handler returns is what is parsed next (drop-next handler: the dropped token is never parsed) *)
Theorem C07_handler_result_is_parsed_next :
  forall (cfg : pconfig) (orc : oracles) (root : command) (ht : rt -> str) (lk : lookup)
           (pre post : list str) (occs_pre : list DenoteSpec.occ) (u name t : str) 
           (arg0 : option str) (fuel : nat) (s : pst) (r r1 : rt),
         po_ignore (pc_opts cfg) = false ->
         pc_handler cfg = HDropNext ->
         DenoteSpec.spells lk pre occs_pre ->
         unknown_tok lk u name arg0 ->
         ps_lk s = lk ->
         ps_args s = pre ++ [u] ++ [t] ++ post ->
         (Datatypes.length (pre ++ [u] ++ [t] ++ post) < fuel)%nat ->
         DenoteSpec.denote orc (pc_nsdelim cfg) ht occs_pre r = Ok (r1, None) ->
         exists (fuel' : nat) (s2 : pst),
           (Datatypes.length post < fuel')%nat /\
           run_loop cfg orc root ht fuel s r =
           run_loop cfg orc root ht fuel' s2 (log_unknown r1 name arg0 (t :: post)) /\
           ps_args s2 = post /\
           ps_arg s2 = u /\
           ps_ret s2 = ps_ret s /\
           ps_pos s2 = ps_pos s /\ ps_err s2 = ps_err s /\ ps_cmd s2 = ps_cmd s /\ ps_lk s2 = ps_lk s.
Proof. exact @C07_loop_handler_result_is_parsed_next. Qed.
Print Assumptions C07_handler_result_is_parsed_next.

Theorem C07_handler_result_is_parsed_next_end_to_end :
  forall (cfg : pconfig) (orc : oracles) (root : command) (ht : rt -> str) (lk : lookup)
           (pre post : list str) (occs_pre occs_post : list DenoteSpec.occ) (u name t : str)
           (arg0 : option str) (fuel : nat) (s : pst) (r rf : rt),
         po_ignore (pc_opts cfg) = false ->
         pc_handler cfg = HDropNext ->
         DenoteSpec.spells lk pre occs_pre ->
         unknown_tok lk u name arg0 ->
         DenoteSpec.spells lk post occs_post ->
         ps_lk s = lk ->
         ps_args s = pre ++ [u] ++ [t] ++ post ->
         (Datatypes.length (pre ++ [u] ++ [t] ++ post) < fuel)%nat ->
         DenoteSpec.denote orc (pc_nsdelim cfg) ht (occs_pre ++ occs_post) r = Ok (rf, None) ->
         exists s' : pst,
           run_loop cfg orc root ht fuel s r = Ok (s', add_unk rf [(name, arg0, t :: post)]) /\
           ps_args s' = [] /\
           ps_arg s' = last post u /\
           ps_ret s' = ps_ret s /\
           ps_pos s' = ps_pos s /\ ps_err s' = ps_err s /\ ps_cmd s' = ps_cmd s /\ ps_lk s' = ps_lk s.
Proof. exact @C07_loop_handler_dropnext_end_to_end. Qed.
Print Assumptions C07_handler_result_is_parsed_next_end_to_end.

Theorem C07_handler_error_stops_the_loop :
  forall (cfg : pconfig) (orc : oracles) (root : command) (ht : rt -> str) (lk : lookup)
           (pre rest : list str) (occs_pre : list DenoteSpec.occ) (u name : str) (arg0 : option str)
           (fuel : nat) (s : pst) (r r1 : rt),
         po_ignore (pc_opts cfg) = false ->
         pc_handler cfg = HError ->
         DenoteSpec.spells lk pre occs_pre ->
         unknown_tok lk u name arg0 ->
         ps_lk s = lk ->
         ps_args s = pre ++ [u] ++ rest ->
         (Datatypes.length (pre ++ [u] ++ rest) < fuel)%nat ->
         DenoteSpec.denote orc (pc_nsdelim cfg) ht occs_pre r = Ok (r1, None) ->
         exists s' : pst,
           run_loop cfg orc root ht fuel s r = Ok (s', log_unknown r1 name arg0 rest) /\
           l_unknown (rt_logs (log_unknown r1 name arg0 rest)) = l_unknown (rt_logs r) ++ [(name, arg0, rest)] /\
           ps_err s' = Some (EForeign (s2l "handler error: " ++ name)) /\
           ps_args s' = rest /\
           ps_arg s' = u /\
           ps_ret s' = ps_ret s /\ ps_pos s' = ps_pos s /\ ps_cmd s' = ps_cmd s /\ ps_lk s' = ps_lk s.
Proof. exact @C07_loop_handler_error_stops. Qed.
Print Assumptions C07_handler_error_stops_the_loop.

(* an option defined only outside the chain root .. current command is unknown at that position *)
Theorem C07_option_of_another_command_is_unknown_in_the_loop :
  forall (cfg : pconfig) (orc : oracles) (root : command) (ht : rt -> str) (path : list nat)
           (pre post : list str) (occs_pre : list DenoteSpec.occ) (u n : str) (arg0 : option str) 
           (fuel : nat) (s : pst) (r r1 : rt),
         po_ignore (pc_opts cfg) = false ->
         pc_handler cfg = HNone ->
         ps_lk s = make_lookup (pc_nsdelim cfg) root path ->
         (forall oc : octx,
          In oc (LookupSpec.chain_octxs root path) ->
          nonempty (o_long (oc_opt oc)) = true -> long_name (pc_nsdelim cfg) oc <> n) ->
         argument_is_option u = true ->
         split_option u = (true, n, arg0) ->
         DenoteSpec.spells (ps_lk s) pre occs_pre ->
         ps_args s = pre ++ [u] ++ post ->
         (Datatypes.length (pre ++ [u] ++ post) < fuel)%nat ->
         DenoteSpec.denote orc (pc_nsdelim cfg) ht occs_pre r = Ok (r1, None) ->
         exists s' : pst,
           run_loop cfg orc root ht fuel s r = Ok (s', r1) /\
           ps_err s' = Some (EFlags ErrUnknownFlag (s2l "unknown flag `" ++ n ++ s2l "'")) /\
           ps_args s' = post /\
           ps_arg s' = u /\
           ps_ret s' = ps_ret s /\ ps_pos s' = ps_pos s /\ ps_cmd s' = ps_cmd s /\ ps_lk s' = ps_lk s.
Proof. exact @C07_out_of_scope_unknown_in_loop. Qed.
Print Assumptions C07_option_of_another_command_is_unknown_in_the_loop.

