(* C07 - Unknown options are never silently accepted. *)
From GoFlags Require Import Base.Str Base.Utf8 Model.Types Model.Scan Model.Lookup Model.State Model.Parse Proofs.LookupSpec.
Open Scope N_scope.

(* lookup is by exact name: what is found carries exactly that qualified long name and
   is declared on the command chain reached so far *)
Theorem C07_lookup_exact : forall delim root path n oc,
  find_last (lk_long (make_lookup delim root path)) n = Some oc ->
  long_name delim oc = n /\ nonempty (o_long (oc_opt oc)) = true /\ In oc (chain_octxs root path).
Proof. exact lookup_long_exact. Qed.
Print Assumptions C07_lookup_exact.

Theorem C07_lookup_short_exact : forall delim root path n oc,
  find_last (lk_short (make_lookup delim root path)) n = Some oc ->
  n = encode_rune (o_short (oc_opt oc)) /\ o_short (oc_opt oc) <> 0 /\ In oc (chain_octxs root path).
Proof. exact lookup_short_exact. Qed.
Print Assumptions C07_lookup_short_exact.

(* an option defined only in a sibling command or in a command not yet named is unknown *)
Theorem C07_out_of_scope_is_unknown : forall delim root path n,
  (forall oc, In oc (chain_octxs root path) -> nonempty (o_long (oc_opt oc)) = true -> long_name delim oc <> n) ->
  find_last (lk_long (make_lookup delim root path)) n = None.
Proof. exact lookup_long_scope. Qed.
Print Assumptions C07_out_of_scope_is_unknown.

(* the three policies, one loop iteration *)
Theorem C07_fails : forall cfg orc root help_text s r a rest n arg,
  ps_args s = a :: rest -> argument_is_option a = true -> split_option a = (true, n, arg) ->
  find_last (lk_long (ps_lk s)) n = None ->
  po_ignore (pc_opts cfg) = false -> pc_handler cfg = HNone ->
  step cfg orc root help_text s r = Ok (Break (ps_with_err (ps_with_args s a rest) (Some (unknown_flag n))) r).
Proof. exact C07_unknown_long_fails. Qed.
Print Assumptions C07_fails.

Theorem C07_ignored_passes_verbatim : forall cfg orc root help_text s r a rest n arg,
  ps_args s = a :: rest -> argument_is_option a = true -> split_option a = (true, n, arg) ->
  find_last (lk_long (ps_lk s)) n = None ->
  po_ignore (pc_opts cfg) = true ->
  step cfg orc root help_text s r =
  bind (add_args orc [a] (ps_with_args s a rest) r) (fun x => let '(s2, r2, _) := x in Ok (Continue s2 r2)).
Proof. exact C07_unknown_long_ignored. Qed.
Print Assumptions C07_ignored_passes_verbatim.

Theorem C07_handler_called_once : forall cfg orc root help_text s r a rest n arg,
  ps_args s = a :: rest -> argument_is_option a = true -> split_option a = (true, n, arg) ->
  find_last (lk_long (ps_lk s)) n = None ->
  po_ignore (pc_opts cfg) = false -> pc_handler cfg <> HNone ->
  step cfg orc root help_text s r =
  Ok (let r' := log_unknown r n arg rest in
      match run_handler cfg n arg rest with
      | inr he => Break (ps_with_err (ps_with_args s a rest) (Some he)) r'
      | inl newargs => Continue (ps_with_args (ps_with_args s a rest) a newargs) r'
      end).
Proof. exact C07_unknown_long_handler. Qed.
Print Assumptions C07_handler_called_once.

(* an unknown rune inside a short cluster is reported naming exactly that rune *)
Theorem C07_cluster_unknown_rune : forall cfg orc help_text total i c w rs argument s r,
  find_last (lk_short (ps_lk s)) (encode_rune c) = None ->
  short_loop cfg orc help_text total ((i, c, w) :: rs) argument s r = Ok (s, r, Some (unknown_flag (encode_rune c))).
Proof. exact short_loop_unknown_first. Qed.
Print Assumptions C07_cluster_unknown_rune.
