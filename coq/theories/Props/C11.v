(* C11 - Values are converted exactly or rejected. *)
From GoFlags Require Import Base.Str Golib.Strconv Proofs.StrconvSpec.
Open Scope N_scope.

(* [uint_denotes]/[int_denotes] (Proofs/StrconvSpec.v) say, independently of the
   parser, what it means for text to denote an integer in a base. *)

(* unsigned kinds: accepted iff the text denotes a number that fits; the stored value
   is exactly the denoted one (never wrapped, truncated or clamped) *)
Theorem C11_uint_exact : forall s base bits n,
  good_base base -> good_bits bits ->
  (parse_uint s base bits = inl n <-> uint_denotes (Z.to_N base) s n /\ n < 2 ^ bits).
Proof. exact parse_uint_spec. Qed.
Print Assumptions C11_uint_exact.

(* signed kinds *)
Theorem C11_int_exact : forall s base bits z,
  good_base base -> good_bits bits ->
  (parse_int s base bits = inl z <->
   int_denotes (Z.to_N base) s z /\ (- 2 ^ (Z.of_N bits - 1) <= z < 2 ^ (Z.of_N bits - 1))%Z).
Proof. exact parse_int_spec. Qed.
Print Assumptions C11_int_exact.

(* a well-formed numeral just beyond the type's limits is a range error *)
Theorem C11_out_of_range_rejected : forall s base bits n,
  good_base base -> good_bits bits ->
  uint_denotes (Z.to_N base) s n -> 2 ^ bits <= n -> parse_uint s base bits = inr NERange.
Proof. exact parse_uint_range. Qed.
Print Assumptions C11_out_of_range_rejected.

Theorem C11_syntax_error_only_for_non_numerals : forall s base bits,
  good_base base -> good_bits bits ->
  parse_uint s base bits = inr NESyntax -> ~ exists n, uint_denotes (Z.to_N base) s n.
Proof. exact parse_uint_syntax. Qed.
Print Assumptions C11_syntax_error_only_for_non_numerals.

(* bases strconv cannot handle are always rejected (base 0 means: infer from prefix) *)
Theorem C11_bad_base_rejected : forall s base bits,
  s <> [] -> ~ good_base base -> base <> 0%Z -> parse_uint s base bits = inr (NEBase base).
Proof. exact parse_uint_bad_base. Qed.
Print Assumptions C11_bad_base_rejected.

(* non-vacuity *)
Example C11_int8_limits :
  parse_int (s2l "127") 10 8 = inl 127%Z /\ parse_int (s2l "128") 10 8 = inr NERange /\
  parse_int (s2l "-128") 10 8 = inl (-128)%Z /\ parse_int (s2l "-129") 10 8 = inr NERange /\
  parse_uint (s2l "-1") 10 8 = inr NESyntax /\ parse_int (s2l "7f") 16 8 = inl 127%Z.
Proof. vm_compute. repeat split; reflexivity. Qed.
