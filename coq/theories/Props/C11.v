(* C11 - Values are converted exactly or rejected. *)
From GoFlags Require Import Base.Str Golib.Strconv Proofs.StrconvSpec.
Open Scope N_scope.

(* [uint_denotes]/[int_denotes] (Proofs/StrconvSpec.v) say, independently of the
   parser, what it means for text to denote an integer in a base. *)

(* unsigned kinds: accepted iff the text denotes a number that fits; the stored value
   is exactly the denoted one (never wrapped, truncated or clamped) *)
Theorem C11_uint_exact : forall s base bits n,
  good_base base -> good_bits bits ->
  (parse_uint s base bits = inl n <-> uint_denotes (Z.to_N base) s n /\ n < 2 ^ bits).
Proof. exact parse_uint_spec. Qed.
Print Assumptions C11_uint_exact.

(* signed kinds *)
Theorem C11_int_exact : forall s base bits z,
  good_base base -> good_bits bits ->
  (parse_int s base bits = inl z <->
   int_denotes (Z.to_N base) s z /\ (- 2 ^ (Z.of_N bits - 1) <= z < 2 ^ (Z.of_N bits - 1))%Z).
Proof. exact parse_int_spec. Qed.
Print Assumptions C11_int_exact.

(* a well-formed numeral just beyond the type's limits is a range error *)
Theorem C11_out_of_range_rejected : forall s base bits n,
  good_base base -> good_bits bits ->
  uint_denotes (Z.to_N base) s n -> 2 ^ bits <= n -> parse_uint s base bits = inr NERange.
Proof. exact parse_uint_range. Qed.
Print Assumptions C11_out_of_range_rejected.

Theorem C11_syntax_error_only_for_non_numerals : forall s base bits,
  good_base base -> good_bits bits ->
  parse_uint s base bits = inr NESyntax -> ~ exists n, uint_denotes (Z.to_N base) s n.
Proof. exact parse_uint_syntax. Qed.
Print Assumptions C11_syntax_error_only_for_non_numerals.

(* bases strconv cannot handle are always rejected (base 0 means: infer from prefix) *)
Theorem C11_bad_base_rejected : forall s base bits,
  s <> [] -> ~ good_base base -> base <> 0%Z -> parse_uint s base bits = inr (NEBase base).
Proof. exact parse_uint_bad_base. Qed.
Print Assumptions C11_bad_base_rejected.

(* non-vacuity *)
Example C11_int8_limits :
  parse_int (s2l "127") 10 8 = inl 127%Z /\ parse_int (s2l "128") 10 8 = inr NERange /\
  parse_int (s2l "-128") 10 8 = inl (-128)%Z /\ parse_int (s2l "-129") 10 8 = inr NERange /\
  parse_uint (s2l "-1") 10 8 = inr NESyntax /\ parse_int (s2l "7f") 16 8 = inl 127%Z.
Proof. vm_compute. repeat split; reflexivity. Qed.

(* ---- added by bin/mkprops (batch 2) ---- *)
From GoFlags Require Import Base.Str Base.Utf8 Golib.Strings Golib.Strconv Model.Types Model.Tag Model.Scan Model.Lookup Model.Convert Model.State Model.Closest Model.Help Model.Parse Model.Ini Model.Complete.
From GoFlags Require Import Proofs.RequiredSpec Proofs.StrconvSpec.

(* for every integer kind the conversion accepts exactly the texts denoting an integer in the option's base within that kind's range, and stores exactly it *)
Theorem C11_integer_kinds_exact :
  forall (orc : oracles) (base_tag : str) (b : Z) (v : str) (i : ikind),
         get_base base_tag = inl b ->
         good_base b ->
         (forall z : Z,
          convert_kind orc base_tag v (KInt i) = Ok (inl (VInt z)) <->
          (if ikind_signed i
           then
            int_denotes (Z.to_N b) v z /\
            (- 2 ^ (Z.of_N (ikind_bits i) - 1) <= z < 2 ^ (Z.of_N (ikind_bits i) - 1))%Z
           else uint_denotes (Z.to_N b) v (Z.to_N z) /\ (0 <= z < 2 ^ Z.of_N (ikind_bits i))%Z)) /\
         ((exists z : Z, convert_kind orc base_tag v (KInt i) = Ok (inl (VInt z))) \/
          (exists msg : str, convert_kind orc base_tag v (KInt i) = Ok (inr msg))) /\
         Z.of_N (ikind_bits i) =
         match i with
         | I8 | U8 => 8%Z
         | I16 | U16 => 16%Z
         | I32 | U32 => 32%Z
         | _ => 64%Z
         end.
Proof. exact @C11_kind_exact. Qed.
Print Assumptions C11_integer_kinds_exact.

Theorem C11_integer_total :
  forall (orc : oracles) (base_tag v : str) (i : ikind),
         (exists z : Z, convert_kind orc base_tag v (KInt i) = Ok (inl (VInt z))) \/
         (exists msg : str, convert_kind orc base_tag v (KInt i) = Ok (inr msg)).
Proof. exact @C11_kind_total. Qed.
Print Assumptions C11_integer_total.

Theorem C11_default_base_10 :
  get_base [] = inl 10%Z /\ good_base 10.
Proof. exact @C11_default_base. Qed.
Print Assumptions C11_default_base_10.

Theorem C11_unparsable_base_tag :
  forall (orc : oracles) (base_tag e v : str) (i : ikind),
         get_base base_tag = inr e -> convert_kind orc base_tag v (KInt i) = Ok (inr e).
Proof. exact @C11_bad_base_tag. Qed.
Print Assumptions C11_unparsable_base_tag.

(* pointers, slices and key:value maps convert exactly when their scalar parts do (map split at the first colon) *)
Theorem C11_pointer_slice_map :
  forall (orc : oracles) (b v : str) (cur : value),
         (forall (k : kind) (v' : value),
          convert orc b v (TPtr k) cur = Ok (v', None) <->
          (exists x : value, convert_kind orc b v k = Ok (inl x) /\ v' = VPtr (Some x))) /\
         (forall (k : kind) (v' : value) (e : str),
          convert orc b v (TPtr k) cur = Ok (v', Some e) <->
          convert_kind orc b v k = Ok (inr e) /\ v' = VPtr (Some (pointee_or_zero k cur))) /\
         (forall (k : kind) (t : str),
          convert orc b v (TPtr k) cur = Panic t <-> convert_kind orc b v k = Panic t) /\
         (forall (k : kind) (v' : value),
          convert orc b v (TSlice (TScalar k)) cur = Ok (v', None) <->
          (exists x : value,
             convert_kind orc b v k = Ok (inl x) /\ v' = VSlice false (ValueSpec.slice_elems cur ++ [x]))) /\
         (forall (k : kind) (v' : value) (e : str),
          convert orc b v (TSlice (TScalar k)) cur = Ok (v', Some e) <->
          convert_kind orc b v k = Ok (inr e) /\ v' = cur) /\
         (forall (k : kind) (t : str),
          convert orc b v (TSlice (TScalar k)) cur = Panic t <-> convert_kind orc b v k = Panic t) /\
         (forall (kk kv : kind) (v' : value),
          convert orc b v (TMap kk kv) cur = Ok (v', None) <->
          (exists x y : value,
             convert_kind orc b (fst (ValueSpec.map_split v)) kk = Ok (inl x) /\
             convert_kind orc b (snd (ValueSpec.map_split v)) kv = Ok (inl y) /\
             v' = VMap false (map_set (ValueSpec.map_elems cur) x y))) /\
         (forall (kk kv : kind) (v' : value) (e : str),
          convert orc b v (TMap kk kv) cur = Ok (v', Some e) <->
          v' = cur /\
          (convert_kind orc b (fst (ValueSpec.map_split v)) kk = Ok (inr e) \/
           (exists x : value,
              convert_kind orc b (fst (ValueSpec.map_split v)) kk = Ok (inl x) /\
              convert_kind orc b (snd (ValueSpec.map_split v)) kv = Ok (inr e)))) /\
         (forall (kk kv : kind) (t : str),
          convert orc b v (TMap kk kv) cur = Panic t <->
          convert_kind orc b (fst (ValueSpec.map_split v)) kk = Panic t \/
          (exists x : value,
             convert_kind orc b (fst (ValueSpec.map_split v)) kk = Ok (inl x) /\
             convert_kind orc b (snd (ValueSpec.map_split v)) kv = Panic t)) /\
         (forall (ty : vtype) (e : err), convert orc b v ty cur <> Err e).
Proof. exact @C11_through_pointer_slice_map. Qed.
Print Assumptions C11_pointer_slice_map.

Theorem C11_slice_of_pointers :
  forall (orc : oracles) (b v : str) (k : kind) (cur : value),
         (forall v' : value,
          convert orc b v (TSlice (TPtr k)) cur = Ok (v', None) <->
          (exists x : value,
             convert_kind orc b v k = Ok (inl x) /\
             v' = VSlice false (ValueSpec.slice_elems cur ++ [VPtr (Some x)]))) /\
         (forall (v' : value) (e : str),
          convert orc b v (TSlice (TPtr k)) cur = Ok (v', Some e) <->
          convert_kind orc b v k = Ok (inr e) /\ v' = cur) /\
         (forall t : str, convert orc b v (TSlice (TPtr k)) cur = Panic t <-> convert_kind orc b v k = Panic t) /\
         (forall e : err, convert orc b v (TSlice (TPtr k)) cur <> Err e).
Proof. exact @C11_through_slice_of_pointers. Qed.
Print Assumptions C11_slice_of_pointers.

