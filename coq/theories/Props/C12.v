(* C12 - INI write/read round trip (value level; the file-level theorems are added
   as they are proved). *)
From GoFlags Require Import Base.Str Golib.Strconv Proofs.QuoteSpec Proofs.StrconvSpec.
Open Scope N_scope.

(* strings: what the writer quotes, the reader unquotes to the same bytes *)
Theorem C12_quoted_string_roundtrip : forall s, bytes_ok s -> unquote (quote s) = Some s.
Proof. exact quote_unquote. Qed.
Print Assumptions C12_quoted_string_roundtrip.

(* a quoted value stays on one physical line *)
Theorem C12_quoted_value_single_line : forall s, bytes_ok s -> ~ In 10 (quote_body s).
Proof. exact quote_body_no_newline. Qed.
Print Assumptions C12_quoted_value_single_line.

(* integers of every kind and base: rendering then parsing gives the value back *)
Theorem C12_int_roundtrip : forall z base bits t,
  good_base base -> good_bits bits ->
  (- 2 ^ (Z.of_N bits - 1) <= z < 2 ^ (Z.of_N bits - 1))%Z ->
  format_int z base = Some t -> parse_int t base bits = inl z.
Proof. exact format_int_parse. Qed.
Print Assumptions C12_int_roundtrip.

Theorem C12_uint_roundtrip : forall n base bits t,
  good_base base -> good_bits bits -> n < 2 ^ bits ->
  format_uint n base = Some t -> parse_uint t base bits = inl n.
Proof. exact format_uint_parse. Qed.
Print Assumptions C12_uint_roundtrip.

Theorem C12_format_total : forall z base, good_base base -> exists t, format_int z base = Some t.
Proof. exact format_int_total. Qed.
Print Assumptions C12_format_total.

(* ---- added by bin/mkprops ---- *)
From GoFlags Require Import Base.Str Base.Utf8 Golib.Strings Golib.Strconv Model.Types Model.Tag Model.Scan Model.Lookup Model.Convert Model.State Model.Closest Model.Help Model.Parse Model.Ini Model.Complete.
From GoFlags Require Import Proofs.IniRoundtrip.

(* what the writer emits unquoted the reader reads back identically *)
Theorem C12_plain_line :
  forall (name : str) (is_string : bool) (v : list N),
         ini_name_ok name ->
         v <> [] ->
         all_print v = true ->
         trim_space v = v ->
         hd 0 v <> 34 ->
         write_option name is_string [] v false false = name ++ s2l " = " ++ v ++ [10] /\
         classify_line (removelast (write_option name is_string [] v false false)) = LEntry name v false /\
         classify_line (write_option name is_string [] v false false) = LEntry name v false.
Proof. exact C12_line_roundtrip_plain. Qed.
Print Assumptions C12_plain_line.

(* what the writer quotes (non-printable, edge white space, leading quote, forced) the reader unquotes to the same bytes, for every byte string *)
Theorem C12_quoted_line :
  forall (name : str) (is_string force : bool) (v : str),
         ini_name_ok name ->
         QuoteSpec.bytes_ok v ->
         force || is_string && ini_needs_quote v = true ->
         write_option name is_string [] v false force = name ++ s2l " = " ++ quote v ++ [10] /\
         classify_line (removelast (write_option name is_string [] v false force)) = LEntry name v true /\
         classify_line (write_option name is_string [] v false force) = LEntry name v true.
Proof. exact C12_line_roundtrip_quoted. Qed.
Print Assumptions C12_quoted_line.

Theorem C12_empty_value_line :
  forall (name : str) (is_string : bool),
         ini_name_ok name ->
         write_option name is_string [] [] false false = name ++ s2l " =" ++ [10] /\
         classify_line (removelast (write_option name is_string [] [] false false)) = LEntry name [] false /\
         classify_line (write_option name is_string [] [] false false) = LEntry name [] false.
Proof. exact C12_line_roundtrip_empty. Qed.
Print Assumptions C12_empty_value_line.

Theorem C12_commented_lines_skipped :
  forall (name : str) (is_string : bool) (key v : str) (force : bool),
         classify_line (removelast (write_option name is_string key v true force)) = LSkip /\
         classify_line (write_option name is_string key v true force) = LSkip.
Proof. exact C12_commented_lines_are_skipped. Qed.
Print Assumptions C12_commented_lines_skipped.

Theorem C12_section_header :
  forall sname : list N,
         sname <> [] ->
         trim_space sname = sname ->
         classify_line (s2l "[" ++ sname ++ s2l "]") = LHeader sname /\
         classify_line (s2l "[" ++ sname ++ s2l "]" ++ [10]) = LHeader sname.
Proof. exact C12_section_header_roundtrip. Qed.
Print Assumptions C12_section_header.

Theorem C12_quoted_entry_one_line :
  forall (name : list N) (is_string force : bool) (v : str),
         ~ In 10 name ->
         QuoteSpec.bytes_ok v ->
         force || is_string && ini_needs_quote v = true ->
         ini_lines (write_option name is_string [] v false force) = [name ++ s2l " = " ++ quote v].
Proof. exact C12_quoted_entry_is_one_line. Qed.
Print Assumptions C12_quoted_entry_one_line.

