(* C12 - INI write/read round trip (value level; the file-level theorems are added
   as they are proved). *)
From GoFlags Require Import Base.Str Golib.Strconv Proofs.QuoteSpec Proofs.StrconvSpec.
Open Scope N_scope.

(* strings: what the writer quotes, the reader unquotes to the same bytes *)
Theorem C12_quoted_string_roundtrip : forall s, bytes_ok s -> unquote (quote s) = Some s.
Proof. exact quote_unquote. Qed.
Print Assumptions C12_quoted_string_roundtrip.

(* a quoted value stays on one physical line *)
Theorem C12_quoted_value_single_line : forall s, bytes_ok s -> ~ In 10 (quote_body s).
Proof. exact quote_body_no_newline. Qed.
Print Assumptions C12_quoted_value_single_line.

(* integers of every kind and base: rendering then parsing gives the value back *)
Theorem C12_int_roundtrip : forall z base bits t,
  good_base base -> good_bits bits ->
  (- 2 ^ (Z.of_N bits - 1) <= z < 2 ^ (Z.of_N bits - 1))%Z ->
  format_int z base = Some t -> parse_int t base bits = inl z.
Proof. exact format_int_parse. Qed.
Print Assumptions C12_int_roundtrip.

Theorem C12_uint_roundtrip : forall n base bits t,
  good_base base -> good_bits bits -> n < 2 ^ bits ->
  format_uint n base = Some t -> parse_uint t base bits = inl n.
Proof. exact format_uint_parse. Qed.
Print Assumptions C12_uint_roundtrip.

Theorem C12_format_total : forall z base, good_base base -> exists t, format_int z base = Some t.
Proof. exact format_int_total. Qed.
Print Assumptions C12_format_total.
