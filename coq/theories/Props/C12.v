(* C12 - INI write/read round trip (value level; the file-level theorems are added
   as they are proved). *)
From GoFlags Require Import Base.Str Golib.Strconv Proofs.QuoteSpec Proofs.StrconvSpec.
Open Scope N_scope.

(* strings: what the writer quotes, the reader unquotes to the same bytes *)
Theorem C12_quoted_string_roundtrip : forall s, bytes_ok s -> unquote (quote s) = Some s.
Proof. exact quote_unquote. Qed.
Print Assumptions C12_quoted_string_roundtrip.

(* a quoted value stays on one physical line *)
Theorem C12_quoted_value_single_line : forall s, bytes_ok s -> ~ In 10 (quote_body s).
Proof. exact quote_body_no_newline. Qed.
Print Assumptions C12_quoted_value_single_line.

(* integers of every kind and base: rendering then parsing gives the value back *)
Theorem C12_int_roundtrip : forall z base bits t,
  good_base base -> good_bits bits ->
  (- 2 ^ (Z.of_N bits - 1) <= z < 2 ^ (Z.of_N bits - 1))%Z ->
  format_int z base = Some t -> parse_int t base bits = inl z.
Proof. exact format_int_parse. Qed.
Print Assumptions C12_int_roundtrip.

Theorem C12_uint_roundtrip : forall n base bits t,
  good_base base -> good_bits bits -> n < 2 ^ bits ->
  format_uint n base = Some t -> parse_uint t base bits = inl n.
Proof. exact format_uint_parse. Qed.
Print Assumptions C12_uint_roundtrip.

Theorem C12_format_total : forall z base, good_base base -> exists t, format_int z base = Some t.
Proof. exact format_int_total. Qed.
Print Assumptions C12_format_total.

(* ---- added by bin/mkprops ---- *)
From GoFlags Require Import Base.Str Base.Utf8 Golib.Strings Golib.Strconv Model.Types Model.Tag Model.Scan Model.Lookup Model.Convert Model.State Model.Closest Model.Help Model.Parse Model.Ini Model.Complete.
From GoFlags Require Import Proofs.IniRoundtrip.

(* what the writer emits unquoted the reader reads back identically *)
Theorem C12_plain_line :
  forall (name : str) (is_string : bool) (v : list N),
         ini_name_ok name ->
         v <> [] ->
         all_print v = true ->
         trim_space v = v ->
         hd 0 v <> 34 ->
         write_option name is_string [] v false false = name ++ s2l " = " ++ v ++ [10] /\
         classify_line (removelast (write_option name is_string [] v false false)) = LEntry name v false /\
         classify_line (write_option name is_string [] v false false) = LEntry name v false.
Proof. exact @C12_line_roundtrip_plain. Qed.
Print Assumptions C12_plain_line.

(* what the writer quotes (non-printable, edge white space, leading quote, forced) the reader unquotes to the same bytes, for every byte string *)
Theorem C12_quoted_line :
  forall (name : str) (is_string force : bool) (v : str),
         ini_name_ok name ->
         QuoteSpec.bytes_ok v ->
         force || is_string && ini_needs_quote v = true ->
         write_option name is_string [] v false force = name ++ s2l " = " ++ quote v ++ [10] /\
         classify_line (removelast (write_option name is_string [] v false force)) = LEntry name v true /\
         classify_line (write_option name is_string [] v false force) = LEntry name v true.
Proof. exact @C12_line_roundtrip_quoted. Qed.
Print Assumptions C12_quoted_line.

Theorem C12_empty_value_line :
  forall (name : str) (is_string : bool),
         ini_name_ok name ->
         write_option name is_string [] [] false false = name ++ s2l " =" ++ [10] /\
         classify_line (removelast (write_option name is_string [] [] false false)) = LEntry name [] false /\
         classify_line (write_option name is_string [] [] false false) = LEntry name [] false.
Proof. exact @C12_line_roundtrip_empty. Qed.
Print Assumptions C12_empty_value_line.

Theorem C12_commented_lines_skipped :
  forall (name : str) (is_string : bool) (key v : str) (force : bool),
         classify_line (removelast (write_option name is_string key v true force)) = LSkip /\
         classify_line (write_option name is_string key v true force) = LSkip.
Proof. exact @C12_commented_lines_are_skipped. Qed.
Print Assumptions C12_commented_lines_skipped.

Theorem C12_section_header :
  forall sname : list N,
         sname <> [] ->
         trim_space sname = sname ->
         classify_line (s2l "[" ++ sname ++ s2l "]") = LHeader sname /\
         classify_line (s2l "[" ++ sname ++ s2l "]" ++ [10]) = LHeader sname.
Proof. exact @C12_section_header_roundtrip. Qed.
Print Assumptions C12_section_header.

Theorem C12_quoted_entry_one_line :
  forall (name : list N) (is_string force : bool) (v : str),
         ~ In 10 name ->
         QuoteSpec.bytes_ok v ->
         force || is_string && ini_needs_quote v = true ->
         ini_lines (write_option name is_string [] v false force) = [name ++ s2l " = " ++ quote v].
Proof. exact @C12_quoted_entry_is_one_line. Qed.
Print Assumptions C12_quoted_entry_one_line.

(* ---- added by bin/mkprops (batch 2) ---- *)
From GoFlags Require Import Base.Str Base.Utf8 Golib.Strings Golib.Strconv Model.Types Model.Tag Model.Scan Model.Lookup Model.Convert Model.State Model.Closest Model.Help Model.Parse Model.Ini Model.Complete.
From GoFlags Require Import Proofs.IniFileSpec Proofs.C12Refuted.

(* FILE LEVEL: the writer's output is the rendering of a structured document (section headers, entries, comments, blanks); Ok, Err and Panic agree *)
Theorem C12_writer_output_is_a_line_document :
  forall (orc : oracles) (incd comd incc : bool) (root : command) (r : rt),
         write_ini orc incd comd incc root r = rmap render_doc (doc_of_ini orc incd comd incc root r).
Proof. exact @C12_writer_is_lines. Qed.
Print Assumptions C12_writer_output_is_a_line_document.

(* reading a rendered well-formed document gives back exactly its sections in order of first appearance, each with its un-commented entries in order, values un-quoted *)
Theorem C12_reader_on_rendered_documents :
  forall doc : list wline,
         Forall wline_ok doc -> read_ini (concat (map render_wline doc)) = Ok (doc_file doc).
Proof. exact @C12_read_rendered. Qed.
Print Assumptions C12_reader_on_rendered_documents.

Theorem C12_rendered_line_numbers_exact :
  forall (doc : list wline) (s : str) (es : list ini_entry) (e : ini_entry),
         Forall wline_ok doc ->
         In (s, es) (doc_file doc) ->
         In e es ->
         Datatypes.length (ini_lines (concat (map render_wline doc))) = Datatypes.length doc /\
         (exists (i : nat) (l : wline),
            nth_error doc i = Some l /\
            ie_line e = N.of_nat i + 1 /\ wline_entry l = Some (ie_name e, ie_value e, ie_quoted e)).
Proof. exact @C12_rendered_line_numbers. Qed.
Print Assumptions C12_rendered_line_numbers_exact.

Theorem C12_entries_of_one_option :
  forall (orc : oracles) (incd comd incc : bool) (o : opt) (r : rt),
         opt_entries orc incd comd incc o r =
         (if opt_writable o
          then
           match opt_value_is_default orc o r with
           | Ok isdef =>
               match opt_value_texts orc o r with
               | Ok (Some kvs) =>
                   if negb incd && isdef || incd && comd && isdef
                   then []
                   else
                    map
                      (entry_of_text (option_ini_name o (rt_fl r (o_fid o))) (write_kind_is_string (o_ty o))
                         (f_iniquote (rt_fl r (o_fid o)))) kvs
               | _ => []
               end
           | _ => []
           end
          else []).
Proof. exact @C12_opt_entries. Qed.
Print Assumptions C12_entries_of_one_option.

(* write then read: the file read back has exactly the written sections and, per section, exactly the written options' entries in order, nothing else *)
Theorem C12_file_round_trip :
  forall (orc : oracles) (incd comd incc : bool) (root : command) (r : rt) (text : str),
         write_ini orc incd comd incc root r = Ok text ->
         section_names_ok orc incd comd incc (ini_groups_own root) r ->
         (forall (sn : str) (g : group) (o : opt),
          In (sn, g) (ini_groups root) -> In o (grp_opts g) -> opt_ok orc incd incc o r) ->
         exists file : ini_file,
           read_ini text = Ok file /\
           text = render_doc (ini_doc orc incd comd incc root r) /\
           file = doc_file (ini_doc orc incd comd incc root r) /\
           map fst file =
           uniq
             ([]
              :: map fst
                   (filter (fun p : str * group => group_any orc incd comd incc (snd p) r) (ini_groups root))) /\
           (forall (s : str) (es : list ini_entry),
            In (s, es) file ->
            map IniSpec.forget_entry es =
            flat_map
              (fun p : str * group =>
               if str_eqb (fst p) s
               then flat_map (fun o : opt => opt_entries orc incd comd incc o r) (grp_opts (snd p))
               else []) (ini_groups root)).
Proof. exact @C12_file_roundtrip. Qed.
Print Assumptions C12_file_round_trip.

Theorem C12_file_round_trip_per_name :
  forall (orc : oracles) (incd comd incc : bool) (root : command) (r : rt) (text : str),
         write_ini orc incd comd incc root r = Ok text ->
         section_names_ok orc incd comd incc (ini_groups_own root) r ->
         (forall (sn : str) (g : group) (o : opt),
          In (sn, g) (ini_groups root) -> In o (grp_opts g) -> opt_ok orc incd incc o r) ->
         exists file : ini_file,
           read_ini text = Ok file /\
           (forall (s : str) (es : list ini_entry) (nm : str),
            In (s, es) file ->
            filter (fun e : str * str * bool => str_eqb (fst (fst e)) nm) (map IniSpec.forget_entry es) =
            flat_map
              (fun p : str * group =>
               if str_eqb (fst p) s
               then
                flat_map
                  (fun o : opt =>
                   if str_eqb (option_ini_name o (rt_fl r (o_fid o))) nm
                   then opt_entries orc incd comd incc o r
                   else []) (grp_opts (snd p))
               else []) (ini_groups root)).
Proof. exact @C12_file_roundtrip_by_name. Qed.
Print Assumptions C12_file_round_trip_per_name.

Theorem C12_map_pairs_sorted_lossless :
  forall (orc : oracles) (o : opt) (k vk : kind) (l : list (value * value)) (ps : list (str * str)),
         pair_texts orc o k vk l = Ok ps ->
         Forall (fun p : str * str => QuoteSpec.bytes_ok (fst p) /\ QuoteSpec.bytes_ok (snd p)) ps ->
         map_pairs orc o k vk l = Ok (sort_by (fun kv : str * str => fst kv) ps).
Proof. exact @C12_map_pairs. Qed.
Print Assumptions C12_map_pairs_sorted_lossless.

Theorem C12_integer_texts_are_plain :
  forall (z base : Z) (t : str), format_int z base = Some t -> plain_text t.
Proof. exact @format_int_plain. Qed.
Print Assumptions C12_integer_texts_are_plain.

Theorem C12_value_texts_wellformed :
  forall (orc : oracles) (o : opt) (r : rt) (kvs : list (str * str)),
         opt_value_ok orc o r ->
         opt_value_texts orc o r = Ok (Some kvs) ->
         Forall
           (fun kv : str * str =>
            text_ok (write_kind_is_string (o_ty o)) (f_iniquote (rt_fl r (o_fid o))) (fst kv) (snd kv)) kvs.
Proof. exact @C12_value_texts_ok. Qed.
Print Assumptions C12_value_texts_wellformed.

(* the same with hypotheses on declarations and stored values only (names without line breaks, byte strings, plain float/duration texts) *)
Theorem C12_file_round_trip_from_values :
  forall (orc : oracles) (incd comd incc : bool) (root : command) (r : rt) (text : str),
         write_ini orc incd comd incc root r = Ok text ->
         section_names_ok orc incd comd incc (ini_groups_own root) r ->
         (forall (sn : str) (g : group) (o : opt),
          In (sn, g) (ini_groups root) -> In o (grp_opts g) -> opt_decl_ok orc incc o r) ->
         exists file : ini_file,
           read_ini text = Ok file /\
           text = render_doc (ini_doc orc incd comd incc root r) /\
           file = doc_file (ini_doc orc incd comd incc root r) /\
           map fst file =
           uniq
             ([]
              :: map fst
                   (filter (fun p : str * group => group_any orc incd comd incc (snd p) r) (ini_groups root))) /\
           (forall (s : str) (es : list ini_entry),
            In (s, es) file ->
            map IniSpec.forget_entry es =
            flat_map
              (fun p : str * group =>
               if str_eqb (fst p) s
               then flat_map (fun o : opt => opt_entries orc incd comd incc o r) (grp_opts (snd p))
               else []) (ini_groups root)).
Proof. exact @C12_file_roundtrip_values. Qed.
Print Assumptions C12_file_round_trip_from_values.

(* RECORDED FINDING (KNOWN_FINDINGS.json): the full round-trip statement is false of the faithful model - witness: an int option with choices 007/8 given as --n=007 is written `N = 7`, which the reader rejects with ErrInvalidChoice *)
Theorem C12_full_statement_refuted_by_choice_text :
  exists (root : command) (r : rt) (orc : oracles) (text : str) (file : ini_file) 
         (e : err),
           root = c12_rootN /\
           orc = ex_orc /\
           tree_octxs root = [c12_ocN] /\
           o_choices (oc_opt c12_ocN) = [s2l "007"; s2l "8"] /\
           o_ty (oc_opt c12_ocN) = TScalar (KInt I0) /\
           o_long (oc_opt c12_ocN) = s2l "n" /\
           o_field (oc_opt c12_ocN) = s2l "N" /\
           (forall (delim : str) (ht : rt -> str),
            opt_set orc delim ht c12_ocN (Some (s2l "007")) c12_r0N = Ok (r, None)) /\
           rt_vals r 0 = VInt 7 /\
           (forall fid : nat, fid <> 0%nat -> rt_vals r fid = rt_vals c12_r0N fid /\ rt_fl r fid = oflags0) /\
           (forall incd comd incc : bool, write_ini orc incd comd incc root r = Ok text) /\
           text = lines_text ["[Application Options]"%string; "N = 7"%string; ""%string] /\
           read_ini text = Ok file /\
           file = [([], []); (s2l "Application Options", [ent "N" "7" false 2])] /\
           e = EIni 2 (s2l "Invalid value `7' for option `--n'. Allowed values are: 007 or 8") /\
           (forall (delim : str) (ht : rt -> str) (ignore_unknown : bool),
            exists r' : rt,
              ini_apply orc delim ht ignore_unknown false root file c12_r0N = Ok (r', Some e) /\
              rt_vals r' 0 = VInt 0 /\ rt_vals r' 0 <> rt_vals r 0).
Proof. exact @C12_roundtrip_refuted_by_choice_text. Qed.
Print Assumptions C12_full_statement_refuted_by_choice_text.

(* the same with IniIncludeDefaults for an option never given: `N = 0` is rejected *)
Theorem C12_full_statement_refuted_by_include_defaults :
  exists (root : command) (r : rt) (orc : oracles) (text : str) (file : ini_file) 
         (e : err),
           root = c12_rootN /\
           orc = ex_orc /\
           tree_octxs root = [c12_ocN] /\
           o_choices (oc_opt c12_ocN) = [s2l "007"; s2l "8"] /\
           o_ty (oc_opt c12_ocN) = TScalar (KInt I0) /\
           r = c12_r0N /\
           rt_vals r 0 = VInt 0 /\
           rt_fl r 0 = oflags0 /\
           (forall incc : bool, write_ini orc true false incc root r = Ok text) /\
           text = lines_text ["[Application Options]"%string; "N = 0"%string; ""%string] /\
           read_ini text = Ok file /\
           file = [([], []); (s2l "Application Options", [ent "N" "0" false 2])] /\
           e = EIni 2 (s2l "Invalid value `0' for option `--n'. Allowed values are: 007 or 8") /\
           (forall (delim : str) (ht : rt -> str) (ignore_unknown : bool),
            exists r' : rt, ini_apply orc delim ht ignore_unknown false root file c12_r0N = Ok (r', Some e)) /\
           (forall comd incc : bool, write_ini orc false comd incc root r = Ok []) /\
           (forall incc : bool,
            write_ini orc true true incc root r =
            Ok (lines_text ["[Application Options]"%string; "; N = 0"%string; ""%string])).
Proof. exact @C12_roundtrip_refuted_by_include_defaults. Qed.
Print Assumptions C12_full_statement_refuted_by_include_defaults.

(* RECORDED FINDING: a map key with a line break spills over two lines; the reader fails with `malformed key=value` *)
Theorem C12_full_statement_refuted_by_map_key_line_break :
  exists (root : command) (r : rt) (orc : oracles) (text : str) (e : err),
           root = c12_rootM /\
           orc = ex_orc /\
           tree_octxs root = [c12_ocM] /\
           o_ty (oc_opt c12_ocM) = TMap KString KString /\
           o_choices (oc_opt c12_ocM) = [] /\
           o_long (oc_opt c12_ocM) = s2l "m" /\
           o_field (oc_opt c12_ocM) = s2l "M" /\
           (forall (delim : str) (ht : rt -> str),
            opt_set orc delim ht c12_ocM (Some ([97; 10; 98] ++ s2l ":1")) c12_r0M = Ok (r, None)) /\
           rt_vals r 0 = VMap false [(VStr [97; 10; 98], VStr (s2l "1"))] /\
           (forall fid : nat, fid <> 0%nat -> rt_vals r fid = rt_vals c12_r0M fid /\ rt_fl r fid = oflags0) /\
           (forall incd comd incc : bool, write_ini orc incd comd incc root r = Ok text) /\
           text = s2l "[Application Options]" ++ [10] ++ s2l "M = a" ++ [10] ++ s2l "b:1" ++ [10; 10] /\
           e = EIni 3 (s2l "malformed key=value (b:1)") /\ read_ini text = Err e.
Proof. exact @C12_roundtrip_refuted_by_map_key_line_break. Qed.
Print Assumptions C12_full_statement_refuted_by_map_key_line_break.

(* the choice check rejects exactly the texts that are not literally one of the choices *)
Theorem C12_choice_check_is_textual :
  forall (orc : oracles) (delim : str) (ht : rt -> str) (oc : octx) (v : str) (r : rt),
         let o := oc_opt oc in
         let fid := o_fid o in
         o_choices o <> [] ->
         (~ In v (o_choices o) ->
          opt_set orc delim ht oc (Some v) r =
          Ok
            (set_fl
               (if (is_map (o_ty o) || is_slice (o_ty o)) && f_clearref (rt_fl r fid) then opt_empty o r else r)
               fid (ValueSpec.set_flags (rt_fl r fid)),
             Some
               (EFlags ErrInvalidChoice
                  (s2l "Invalid value `" ++
                   v ++
                   s2l "' for option `" ++
                   octx_string delim oc ++ s2l "'. Allowed values are: " ++ allowed_text (o_choices o))))) /\
         (In v (o_choices o) ->
          opt_set orc delim ht oc (Some v) r = opt_set orc delim ht (ValueSpec.octx_no_choices oc) (Some v) r /\
          (forall (r' : rt) (msg : str),
           opt_set orc delim ht oc (Some v) r <> Ok (r', Some (EFlags ErrInvalidChoice msg)))) /\
         ((exists (r' : rt) (msg : str),
             opt_set orc delim ht oc (Some v) r = Ok (r', Some (EFlags ErrInvalidChoice msg))) <->
          ~ In v (o_choices o)).
Proof. exact @C12_choice_text_accepted_iff_choice. Qed.
Print Assumptions C12_choice_check_is_textual.

