(* C06 - Required options and argument counts are enforced. *)
From GoFlags Require Import Base.Str Model.Types Model.Scan Model.Lookup Model.State Model.Parse Proofs.ParseFrame.
Open Scope N_scope.

(* a parse succeeds only if every required option declared on the parser or on a
   command of the active chain is marked as supplied *)
Theorem C06_required : forall cfg orc root help_text args r r' res,
  parse_body cfg orc root help_text args r = Ok (r', res) ->
  pr_err res = None ->
  forall pc oc,
    In pc (active_chain (cmd_depth root) (rt_active r') root []) ->
    In oc (cmd_octxs (snd pc)) ->
    o_required (oc_opt oc) = true ->
    f_isset (rt_fl r' (o_fid (oc_opt oc))) = true.
Proof. exact C06_required_main. Qed.
Print Assumptions C06_required.

(* a missing required option of the active chain always yields ErrRequired *)
Theorem C06_missing_is_reported : forall cfg root s r oc pc,
  In pc (active_chain (cmd_depth root) (rt_active r) root []) ->
  In oc (cmd_octxs (snd pc)) ->
  o_required (oc_opt oc) = true ->
  f_isset (rt_fl r (o_fid (oc_opt oc))) = false ->
  exists m, ps_err (check_required cfg root s r) = Some (EFlags ErrRequired m).
Proof. exact check_required_missing. Qed.
Print Assumptions C06_missing_is_reported.

(* and nothing is executed in that case (C09) *)
Theorem C06_nothing_executed : forall cfg orc root help_text args r r' res t m,
  parse_body cfg orc root help_text args r = Ok (r', res) ->
  pr_err res = Some (EFlags t m) ->
  l_exec (rt_logs r') = l_exec (rt_logs r).
Proof. exact C09_no_exec_on_flags_error. Qed.
Print Assumptions C06_nothing_executed.
