(* C06 - Required options and argument counts are enforced. *)
From GoFlags Require Import Base.Str Model.Types Model.Scan Model.Lookup Model.State Model.Parse Proofs.ParseFrame.
Open Scope N_scope.

(* a parse succeeds only if every required option declared on the parser or on a
   command of the active chain is marked as supplied *)
Theorem C06_required : forall cfg orc root help_text args r r' res,
  parse_body cfg orc root help_text args r = Ok (r', res) ->
  pr_err res = None ->
  forall pc oc,
    In pc (active_chain (cmd_depth root) (rt_active r') root []) ->
    In oc (cmd_octxs (snd pc)) ->
    o_required (oc_opt oc) = true ->
    f_isset (rt_fl r' (o_fid (oc_opt oc))) = true.
Proof. exact C06_required_main. Qed.
Print Assumptions C06_required.

(* a missing required option of the active chain always yields ErrRequired *)
Theorem C06_missing_is_reported : forall cfg root s r oc pc,
  In pc (active_chain (cmd_depth root) (rt_active r) root []) ->
  In oc (cmd_octxs (snd pc)) ->
  o_required (oc_opt oc) = true ->
  f_isset (rt_fl r (o_fid (oc_opt oc))) = false ->
  exists m, ps_err (check_required cfg root s r) = Some (EFlags ErrRequired m).
Proof. exact check_required_missing. Qed.
Print Assumptions C06_missing_is_reported.

(* and nothing is executed in that case (C09) *)
Theorem C06_nothing_executed : forall cfg orc root help_text args r r' res t m,
  parse_body cfg orc root help_text args r = Ok (r', res) ->
  pr_err res = Some (EFlags t m) ->
  l_exec (rt_logs r') = l_exec (rt_logs r).
Proof. exact C09_no_exec_on_flags_error. Qed.
Print Assumptions C06_nothing_executed.

(* ---- added by bin/mkprops (batch 2) ---- *)
From GoFlags Require Import Base.Str Base.Utf8 Golib.Strings Golib.Strconv Model.Types Model.Tag Model.Scan Model.Lookup Model.Convert Model.State Model.Closest Model.Help Model.Parse Model.Ini Model.Complete.
From GoFlags Require Import Proofs.RequiredSpec.

(* independent reading of a positional count constraint being unmet (required / N / N-M) *)
Theorem C06_positional_unmet_spec :
  forall (root : command) (s : pst) (r : rt) (a : arg),
         arg_unmet root s r a = true <->
         is_slice (a_ty a) = false /\
         (c_args_required (cmd_info (cur_cmd root s)) = true \/ a_req a <> (-1)%Z \/ a_max a <> (-1)%Z) \/
         is_slice (a_ty a) = true /\
         (a_req a <> (-1)%Z \/ a_max a <> (-1)%Z) /\
         (let n := stored_count (rt_vals r (a_fid a)) in
          (n < a_req a)%Z \/ a_max a <> (-1)%Z /\ (a_max a < n)%Z).
Proof. exact @arg_unmet_spec. Qed.
Print Assumptions C06_positional_unmet_spec.

Theorem C06_positional_iff :
  forall (root : command) (s : pst) (r : rt) (a : arg),
         arg_reqname root s r a = [] <-> arg_unmet root s r a = false.
Proof. exact @C06_positional_constraints. Qed.
Print Assumptions C06_positional_iff.

(* a parse succeeds only if every positional count constraint of the innermost command is met *)
Theorem C06_positional_success :
  forall (cfg : pconfig) (orc : oracles) (root : command) (ht : rt -> str) (args : list str) 
           (r r' : rt) (res0 : presult),
         parse_body cfg orc root ht args r = Ok (r', res0) ->
         pr_err res0 = None ->
         exists (s : pst) (r1 : rt),
           parse_core cfg orc root ht args r = Ok (s, r1) /\
           ps_err s = None /\ (forall a : arg, In a (ps_pos s) -> arg_unmet root s r1 a = false).
Proof. exact @C06_positional_main_body. Qed.
Print Assumptions C06_positional_success.

(* when no option is missing, an unmet positional constraint yields ErrRequired *)
Theorem C06_positional_reported :
  forall (cfg : pconfig) (root : command) (s : pst) (r : rt),
         (forall (pc : list nat * command) (oc : octx),
          In pc (active_chain (cmd_depth root) (rt_active r) root []) ->
          In oc (cmd_octxs (snd pc)) ->
          o_required (oc_opt oc) = true -> f_isset (rt_fl r (o_fid (oc_opt oc))) = true) ->
         (exists a : arg, In a (ps_pos s) /\ arg_unmet root s r a = true) ->
         exists m : str, check_required cfg root s r = ps_with_err s (Some (EFlags ErrRequired m)).
Proof. exact @C06_positional_message. Qed.
Print Assumptions C06_positional_reported.

(* options required only by commands that were not selected are never demanded *)
Theorem C06_unselected_commands_not_demanded :
  forall (cfg : pconfig) (root : command) (s : pst) (r : rt),
         (forall (pc : list nat * command) (oc : octx),
          In pc (tree_cmds root) ->
          In oc (cmd_octxs (snd pc)) ->
          o_required (oc_opt oc) = true ->
          f_isset (rt_fl r (o_fid (oc_opt oc))) = false ->
          ~ In pc (active_chain (cmd_depth root) (rt_active r) root [])) ->
         (forall a : arg, In a (ps_pos s) -> arg_unmet root s r a = false) -> check_required cfg root s r = s.
Proof. exact @C06_unselected_not_demanded. Qed.
Print Assumptions C06_unselected_commands_not_demanded.

Theorem C06_check_required_exact :
  forall (cfg : pconfig) (root : command) (s : pst) (r : rt),
         ps_err s = None ->
         check_required cfg root s r = s <->
         (forall (pc : list nat * command) (oc : octx),
          In pc (active_chain (cmd_depth root) (rt_active r) root []) ->
          In oc (cmd_octxs (snd pc)) ->
          o_required (oc_opt oc) = true -> f_isset (rt_fl r (o_fid (oc_opt oc))) = true) /\
         (forall a : arg, In a (ps_pos s) -> arg_unmet root s r a = false).
Proof. exact @C06_check_required_id_iff. Qed.
Print Assumptions C06_check_required_exact.

