(* C13 - An INI entry means the same as the corresponding command-line flag.
   Statements only: each theorem re-states a lemma of Proofs.IniSpec verbatim and is closed by [exact]. *)
From GoFlags Require Import Base.Str Base.Utf8 Golib.Strings Golib.Strconv Model.Types Model.Tag Model.Scan Model.Lookup Model.Convert Model.State Model.Closest Model.Help Model.Parse Model.Ini Model.Complete.
From GoFlags Require Import Proofs.IniSpec.
Open Scope N_scope.

(* ini-name (case-insensitive) > field name > namespaced long name > short name, first match per class *)
Theorem C13_name_priority :
  forall (delim : str) (ocs : list octx) (name : str),
         option_by_name delim ocs name = best_match delim ocs name.
Proof. exact @C13_priority. Qed.
Print Assumptions C13_name_priority.

(* an entry is applied by the very Option.Set a flag goes through; its error is wrapped with the entry's line *)
Theorem C13_same_set_path_as_flags :
  forall (orc : oracles) (delim : str) (ht : rt -> str) (ignore_unknown : bool) 
           (groups : list gref) (e : ini_entry) (r : rt) (q : quotes) (dfl : list nat) 
           (oc : octx),
         resolve_entry delim groups (ie_name e) = Some oc ->
         can_argument (oc_opt oc) || nonempty (ie_value e) = true ->
         is_map (o_ty (oc_opt oc)) = false ->
         let fid := o_fid (oc_opt oc) in
         let result := apply_entry orc delim ht ignore_unknown false groups e r q dfl in
         match opt_set orc delim ht oc (Some (ie_value e)) r with
         | Ok (r1, Some er) => result = Ok (r1, q, dfl, Some (EIni (ie_line e) (err_text er)))
         | Ok (r1, None) =>
             exists r2 : rt,
               result = Ok (r2, ini_quotes q fid (ie_quoted e), dfl, None) /\
               rt_vals r2 = rt_vals r1 /\
               rt_active r2 = rt_active r1 /\
               rt_logs r2 = rt_logs r1 /\
               (forall k : nat, k <> fid -> rt_fl r2 k = rt_fl r1 k) /\
               rt_fl r2 fid = fl_set_ininame (fl_set_prevent (rt_fl r1 fid) true) (ie_name e)
         | Err er => result = Err er
         | Panic w => result = Panic w
         end.
Proof. exact @C13_same_set_path. Qed.
Print Assumptions C13_same_set_path_as_flags.

(* ---- added by bin/mkprops (batch 2) ---- *)
From GoFlags Require Import Base.Str Base.Utf8 Golib.Strings Golib.Strconv Model.Types Model.Tag Model.Scan Model.Lookup Model.Convert Model.State Model.Closest Model.Help Model.Parse Model.Ini Model.Complete.
From GoFlags Require Import Proofs.IniPanicSpec Proofs.EquivSpec.

Theorem C13_section_resolution_eq :
  forall (root : command) (name : str),
         matching_groups root name =
         match name with
         | [] => cmd_group_refs root
         | _ :: _ => match section_group root name with
                     | Some g => [g]
                     | None => []
                     end
         end.
Proof. exact @C13_section_resolution. Qed.
Print Assumptions C13_section_resolution_eq.

(* entries before any section header address all of the parser's own groups *)
Theorem C13_global_section_all_groups :
  forall root : command,
         matching_groups root [] = cmd_group_refs root /\
         (exists rest : list gref, cmd_group_refs root = own_gref root :: rest).
Proof. exact @C13_section_global. Qed.
Print Assumptions C13_global_section_all_groups.

(* a section names a group by its description, case-insensitively (last match, as Group.Find) *)
Theorem C13_section_by_group_description :
  forall (root : command) (name : list N) (pre : list gref) (g : gref) (post : list gref),
         name <> [] ->
         tl (cmd_group_refs root) = pre ++ g :: post ->
         desc_matches name g = true ->
         (forall g' : gref, In g' post -> desc_matches name g' = false) ->
         group_find root name = Some g /\ matching_groups root name = [g].
Proof. exact @C13_section_by_description. Qed.
Print Assumptions C13_section_by_group_description.

Theorem C13_section_by_command_name :
  forall (root : command) (name : list N) (pre : list command) (sc : command) (post : list command),
         name <> [] ->
         group_find root name = None ->
         cmd_subs root = pre ++ sc :: post ->
         (forall sc' : command, In sc' pre -> sub_passes name sc') ->
         name = c_name (cmd_info sc) -> matching_groups root name = [own_gref sc].
Proof. exact @C13_section_command. Qed.
Print Assumptions C13_section_by_command_name.

Theorem C13_section_by_command_path :
  forall (root : command) (pre : list command) (sc : command) (post : list command) (rest : list N),
         let name := c_name (cmd_info sc) ++ [46] ++ rest in
         group_find root name = None ->
         cmd_subs root = pre ++ sc :: post ->
         (forall sc' : command, In sc' pre -> sub_passes name sc') ->
         matching_groups root name =
         match section_group sc rest with
         | Some g => [g]
         | None => match subs_lookup section_group name post with
                   | Some g => [g]
                   | None => []
                   end
         end.
Proof. exact @C13_section_command_path. Qed.
Print Assumptions C13_section_by_command_path.

(* an entry that resolves to an option is exactly Option.Set with the entry's value text (plus the ini-name / quote bookkeeping); errors are the Set errors wrapped with the entry's line *)
Theorem C13_entry_is_Set :
  forall (orc : oracles) (delim : str) (ht : rt -> str) (ignore_unknown : bool) 
           (groups : list gref) (e : ini_entry) (r : rt) (q : quotes) (dfl : list nat) 
           (oc : octx),
         resolve_entry delim groups (ie_name e) = Some oc ->
         let o := oc_opt oc in
         let fid := o_fid o in
         let result := apply_entry orc delim ht ignore_unknown false groups e r q dfl in
         o_noini o = false /\
         match entry_arg o e with
         | inl a =>
             match opt_set orc delim ht oc a r with
             | Ok (r1, Some er) => result = Ok (r1, q, dfl, Some (EIni (ie_line e) (err_text er)))
             | Ok (r1, None) =>
                 exists r2 : rt,
                   result = Ok (r2, IniSpec.ini_quotes q fid (entry_quoted o e), dfl, None) /\
                   rt_vals r2 = rt_vals r1 /\
                   rt_active r2 = rt_active r1 /\
                   rt_logs r2 = rt_logs r1 /\
                   (forall k : nat, k <> fid -> rt_fl r2 k = rt_fl r1 k) /\
                   rt_fl r2 fid = fl_set_ininame (rt_fl r1 fid) (ie_name e) /\
                   rt_fl r1 fid = ValueSpec.set_flags (rt_fl r fid)
             | Err er => result = Err er
             | Panic w => result = Panic w
             end
         | inr er => er = EIni (ie_line e) err_syntax /\ result = Ok (r, q, dfl, Some er)
         end.
Proof. exact @C13_entry_is_set. Qed.
Print Assumptions C13_entry_is_Set.

(* a list of entries equals the left-to-right fold of Option.Set, like repeated flags *)
Theorem C13_entries_accumulate_like_occurrences :
  forall (orc : oracles) (delim : str) (ht : rt -> str) (ignore_unknown : bool) 
           (groups : list gref) (es : list ini_entry) (occs : list DenoteSpec.occ) 
           (r : rt) (q : quotes) (dfl : list nat),
         Forall2 (entry_occ delim groups) es occs ->
         match DenoteSpec.denote orc delim ht occs r with
         | Ok (r1, Some er) =>
             exists
               (r2 : rt) (q2 : quotes) (er' : err) (es1 : list ini_entry) (en : ini_entry) 
             (es2 : list ini_entry) (pre : list (octx * option str)) (oc : octx) (a0 : option str) 
             (post : list (octx * option str)) (rm : rt),
               es = es1 ++ en :: es2 /\
               occs = pre ++ (oc, a0) :: post /\
               Datatypes.length es1 = Datatypes.length pre /\
               entry_occ delim groups en (oc, a0) /\
               DenoteSpec.denote orc delim ht pre r = Ok (rm, None) /\
               opt_set orc delim ht oc a0 rm = Ok (r1, Some er) /\
               apply_entries orc delim ht ignore_unknown false groups es r q dfl =
               Ok (r2, q2, dfl, Some (EIni (ie_line en) (err_text er'))) /\ rt_sim r1 r2 /\ err_sim er er'
         | Ok (r1, None) =>
             exists r2 : rt,
               apply_entries orc delim ht ignore_unknown false groups es r q dfl =
               Ok (r2, entries_quotes (combine es occs) q, dfl, None) /\
               (forall k : nat, rt_vals r2 k = rt_vals r1 k) /\
               rt_active r2 = rt_active r1 /\
               rt_logs r2 = rt_logs r1 /\
               (forall k : nat,
                fl_sim (rt_fl r1 k) (rt_fl r2 k) /\
                f_ininame (rt_fl r1 k) = f_ininame (rt_fl r k) /\
                f_ininame (rt_fl r2 k) = last_ininame (combine es occs) k (f_ininame (rt_fl r k)))
         | Err e => apply_entries orc delim ht ignore_unknown false groups es r q dfl = Err e
         | Panic w => apply_entries orc delim ht ignore_unknown false groups es r q dfl = Panic w
         end.
Proof. exact @C13_entries_accumulate_like_flags. Qed.
Print Assumptions C13_entries_accumulate_like_occurrences.

Theorem C13_slice_entries_accumulate_like_flags :
  forall (orc : oracles) (delim : str) (ht : rt -> str) (ignore_unknown : bool) 
           (groups : list gref) (es : list ini_entry) (occs : list DenoteSpec.occ) 
           (r r1 : rt) (q : quotes) (dfl : list nat) (o0 : opt) (e : vtype) (vs : list str),
         Forall2 (entry_occ delim groups) es occs ->
         DenoteSpec.fid_identifies o0 occs ->
         o_ty o0 = TSlice e ->
         map snd (DenoteSpec.occs_of (o_fid o0) occs) = map Some vs ->
         vs <> [] ->
         f_clearref (rt_fl r (o_fid o0)) = true ->
         DenoteSpec.denote orc delim ht occs r = Ok (r1, None) ->
         exists (r2 : rt) (xs : list value),
           apply_entries orc delim ht ignore_unknown false groups es r q dfl =
           Ok (r2, entries_quotes (combine es occs) q, dfl, None) /\
           Forall2 (fun (v : str) (x : value) => convert orc (o_base o0) v e (zero_value e) = Ok (x, None)) vs
             xs /\ rt_vals r2 (o_fid o0) = VSlice false xs /\ rt_vals r1 (o_fid o0) = VSlice false xs.
Proof. exact @C13_slice_entries_accumulate. Qed.
Print Assumptions C13_slice_entries_accumulate_like_flags.

(* END TO END: the entries of a section and ANY command line that spells the same occurrences leave every field with the same value and the same flags (up to the recorded ini-name) *)
Theorem C13_section_equals_command_line :
  forall (cfg : pconfig) (orc : oracles) (root : command) (ht : rt -> str) (ignore_unknown : bool)
           (groups : list gref) (es : list ini_entry) (occs : list DenoteSpec.occ) 
           (toks : list str) (fuel : nat) (s : pst) (r : rt) (q : quotes) (dfl : list nat),
         Forall2 (entry_occ (pc_nsdelim cfg) groups) es occs ->
         DenoteSpec.spells (ps_lk s) toks occs ->
         ps_args s = toks ->
         (Datatypes.length toks < fuel)%nat ->
         match run_loop cfg orc root ht fuel s r with
         | Ok (s', r1) =>
             match apply_entries orc (pc_nsdelim cfg) ht ignore_unknown false groups es r q dfl with
             | Ok (r2, q2, dfl2, ier) =>
                 (forall k : nat, rt_vals r2 k = rt_vals r1 k) /\
                 rt_active r2 = rt_active r1 /\
                 rt_logs r2 = rt_logs r1 /\
                 (forall k : nat, fl_sim (rt_fl r1 k) (rt_fl r2 k)) /\
                 dfl2 = dfl /\
                 (DenoteSpec.denote orc (pc_nsdelim cfg) ht occs r = Ok (r1, None) /\
                  ps_err s' = ps_err s /\
                  ps_args s' = [] /\
                  ier = None /\
                  q2 = entries_quotes (combine es occs) q /\
                  (forall k : nat,
                   f_ininame (rt_fl r1 k) = f_ininame (rt_fl r k) /\
                   f_ininame (rt_fl r2 k) = last_ininame (combine es occs) k (f_ininame (rt_fl r k))) \/
                  (exists
                     (es1 : list ini_entry) (en : ini_entry) (es2 : list ini_entry) 
                   (pre : list (octx * option str)) (oc : octx) (a1 : option str) (post : 
                                                                                  list 
                                                                                  (octx * option str)) 
                   (er er' : err),
                     es = es1 ++ en :: es2 /\
                     occs = pre ++ (oc, a1) :: post /\
                     Datatypes.length es1 = Datatypes.length pre /\
                     entry_occ (pc_nsdelim cfg) groups en (oc, a1) /\
                     DenoteSpec.denote orc (pc_nsdelim cfg) ht occs r = Ok (r1, Some er) /\
                     ps_err s' = Some (wrap_marshal cfg oc er) /\
                     ier = Some (EIni (ie_line en) (err_text er')) /\
                     err_sim er er' /\ DenoteSpec.spells (ps_lk s) (ps_args s') post))
             | _ => False
             end
         | Err e1 =>
             match apply_entries orc (pc_nsdelim cfg) ht ignore_unknown false groups es r q dfl with
             | Err e2 => e1 = e2
             | _ => False
             end
         | Panic w1 =>
             match apply_entries orc (pc_nsdelim cfg) ht ignore_unknown false groups es r q dfl with
             | Panic w2 => w1 = w2
             | _ => False
             end
         end.
Proof. exact @C13_section_equals_flags. Qed.
Print Assumptions C13_section_equals_command_line.

