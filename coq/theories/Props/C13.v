(* C13 - An INI entry means the same as the corresponding command-line flag.
   Statements only: each theorem re-states a lemma of Proofs.IniSpec verbatim and is closed by [exact]. *)
From GoFlags Require Import Base.Str Base.Utf8 Golib.Strings Golib.Strconv Model.Types Model.Tag Model.Scan Model.Lookup Model.Convert Model.State Model.Closest Model.Help Model.Parse Model.Ini Model.Complete.
From GoFlags Require Import Proofs.IniSpec.
Open Scope N_scope.

(* ini-name (case-insensitive) > field name > namespaced long name > short name, first match per class *)
Theorem C13_name_priority :
  forall (delim : str) (ocs : list octx) (name : str),
         option_by_name delim ocs name = best_match delim ocs name.
Proof. exact @C13_priority. Qed.
Print Assumptions C13_name_priority.

(* an entry is applied by the very Option.Set a flag goes through; its error is wrapped with the entry's line *)
Theorem C13_same_set_path_as_flags :
  forall (orc : oracles) (delim : str) (ht : rt -> str) (ignore_unknown : bool) 
           (groups : list gref) (e : ini_entry) (r : rt) (q : quotes) (dfl : list nat) 
           (oc : octx),
         resolve_entry delim groups (ie_name e) = Some oc ->
         can_argument (oc_opt oc) || nonempty (ie_value e) = true ->
         is_map (o_ty (oc_opt oc)) = false ->
         let fid := o_fid (oc_opt oc) in
         let result := apply_entry orc delim ht ignore_unknown false groups e r q dfl in
         match opt_set orc delim ht oc (Some (ie_value e)) r with
         | Ok (r1, Some er) => result = Ok (r1, q, dfl, Some (EIni (ie_line e) (err_text er)))
         | Ok (r1, None) =>
             exists r2 : rt,
               result = Ok (r2, ini_quotes q fid (ie_quoted e), dfl, None) /\
               rt_vals r2 = rt_vals r1 /\
               rt_active r2 = rt_active r1 /\
               rt_logs r2 = rt_logs r1 /\
               (forall k : nat, k <> fid -> rt_fl r2 k = rt_fl r1 k) /\
               rt_fl r2 fid = fl_set_ininame (fl_set_prevent (rt_fl r1 fid) true) (ie_name e)
         | Err er => result = Err er
         | Panic w => result = Panic w
         end.
Proof. exact @C13_same_set_path. Qed.
Print Assumptions C13_same_set_path_as_flags.

(* ---- added by bin/mkprops (batch 2) ---- *)
From GoFlags Require Import Base.Str Base.Utf8 Golib.Strings Golib.Strconv Model.Types Model.Tag Model.Scan Model.Lookup Model.Convert Model.State Model.Closest Model.Help Model.Parse Model.Ini Model.Complete.
From GoFlags Require Import Proofs.IniPanicSpec.

Theorem C13_section_resolution_eq :
  forall (root : command) (name : str),
         matching_groups root name =
         match name with
         | [] => cmd_group_refs root
         | _ :: _ => match section_group root name with
                     | Some g => [g]
                     | None => []
                     end
         end.
Proof. exact @C13_section_resolution. Qed.
Print Assumptions C13_section_resolution_eq.

(* entries before any section header address all of the parser's own groups *)
Theorem C13_global_section_all_groups :
  forall root : command,
         matching_groups root [] = cmd_group_refs root /\
         (exists rest : list gref, cmd_group_refs root = own_gref root :: rest).
Proof. exact @C13_section_global. Qed.
Print Assumptions C13_global_section_all_groups.

(* a section names a group by its description, case-insensitively (last match, as Group.Find) *)
Theorem C13_section_by_group_description :
  forall (root : command) (name : list N) (pre : list gref) (g : gref) (post : list gref),
         name <> [] ->
         tl (cmd_group_refs root) = pre ++ g :: post ->
         desc_matches name g = true ->
         (forall g' : gref, In g' post -> desc_matches name g' = false) ->
         group_find root name = Some g /\ matching_groups root name = [g].
Proof. exact @C13_section_by_description. Qed.
Print Assumptions C13_section_by_group_description.

Theorem C13_section_by_command_name :
  forall (root : command) (name : list N) (pre : list command) (sc : command) (post : list command),
         name <> [] ->
         group_find root name = None ->
         cmd_subs root = pre ++ sc :: post ->
         (forall sc' : command, In sc' pre -> sub_passes name sc') ->
         name = c_name (cmd_info sc) -> matching_groups root name = [own_gref sc].
Proof. exact @C13_section_command. Qed.
Print Assumptions C13_section_by_command_name.

Theorem C13_section_by_command_path :
  forall (root : command) (pre : list command) (sc : command) (post : list command) (rest : list N),
         let name := c_name (cmd_info sc) ++ [46] ++ rest in
         group_find root name = None ->
         cmd_subs root = pre ++ sc :: post ->
         (forall sc' : command, In sc' pre -> sub_passes name sc') ->
         matching_groups root name =
         match section_group sc rest with
         | Some g => [g]
         | None => match subs_lookup section_group name post with
                   | Some g => [g]
                   | None => []
                   end
         end.
Proof. exact @C13_section_command_path. Qed.
Print Assumptions C13_section_by_command_path.

