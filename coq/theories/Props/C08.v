(* C08 - Command selection and option scoping. *)
From GoFlags Require Import Base.Str Base.Utf8 Model.Types Model.Scan Model.Lookup Model.State Model.Parse Proofs.LookupSpec.
Open Scope N_scope.

(* command words resolve, by name or by any alias, among the sub-commands of the
   command active at that point only *)
Theorem C08_command_words : forall delim root path w i,
  find_last (lk_cmds (make_lookup delim root path)) w = Some i ->
  exists cur sub, cmd_at root path = Some cur /\ nth_error (cmd_subs cur) i = Some sub /\
                  (w = c_name (cmd_info sub) \/ In w (c_aliases (cmd_info sub))).
Proof. exact lookup_cmds_exact. Qed.
Print Assumptions C08_command_words.

(* name and aliases are interchangeable *)
Theorem C08_alias_interchangeable : forall (c : command) w i,
  NoDup (map fst (fill_cmds c)) -> In (w, i) (fill_cmds c) -> find_last (fill_cmds c) w = Some i.
Proof. exact lookup_cmds_alias. Qed.
Print Assumptions C08_alias_interchangeable.

(* a command word in command position switches to that command *)
Theorem C08_switch : forall cfg orc root s r i,
  ps_pos s = [] ->
  nonempty (map (fun _ => 0) (cmd_subs (cur_cmd root s))) = true ->
  ps_ret s = [] ->
  find_last (lk_cmds (ps_lk s)) (ps_arg s) = Some i ->
  parse_non_option cfg orc root s r =
  Ok (fill_parse_state cfg root s (ps_cmd s ++ [i]), set_active r (ps_cmd s) i, None).
Proof. exact C08_enter. Qed.
Print Assumptions C08_switch.

(* a command's options are accepted from its name onwards and its ancestors' options
   stay accepted; the innermost declaration wins when names clash (later bindings
   shadow earlier ones in find_last) *)
Theorem C08_scope_long : forall delim root path i cur sub,
  cmd_at root path = Some cur -> nth_error (cmd_subs cur) i = Some sub ->
  lk_long (make_lookup delim root (path ++ [i])) = lk_long (make_lookup delim root path) ++ snd (fill_opts delim sub).
Proof. exact lookup_enter_long. Qed.
Print Assumptions C08_scope_long.

Theorem C08_scope_short : forall delim root path i cur sub,
  cmd_at root path = Some cur -> nth_error (cmd_subs cur) i = Some sub ->
  lk_short (make_lookup delim root (path ++ [i])) = lk_short (make_lookup delim root path) ++ fst (fill_opts delim sub).
Proof. exact lookup_enter_short. Qed.
Print Assumptions C08_scope_short.

Theorem C08_innermost_wins : forall {A} (a b : list (str * A)) k,
  find_last (a ++ b) k = match find_last b k with Some v => Some v | None => find_last a k end.
Proof. intros A. exact (@find_last_app A). Qed.
Print Assumptions C08_innermost_wins.

(* when sub-commands are optional an unrecognised word is an ordinary argument *)
Theorem C08_optional_word_is_argument : forall cfg orc root s r,
  ps_pos s = [] ->
  find_last (lk_cmds (ps_lk s)) (ps_arg s) = None ->
  c_sub_optional (cmd_info (cur_cmd root s)) = true ->
  parse_non_option cfg orc root s r = add_args orc [ps_arg s] s r.
Proof. exact C08_unknown_word_optional. Qed.
Print Assumptions C08_optional_word_is_argument.
