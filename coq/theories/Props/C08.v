(* C08 - Command selection and option scoping. *)
From GoFlags Require Import Base.Str Base.Utf8 Model.Types Model.Scan Model.Lookup Model.State Model.Parse Proofs.LookupSpec.
Open Scope N_scope.

(* command words resolve, by name or by any alias, among the sub-commands of the
   command active at that point only *)
Theorem C08_command_words : forall delim root path w i,
  find_last (lk_cmds (make_lookup delim root path)) w = Some i ->
  exists cur sub, cmd_at root path = Some cur /\ nth_error (cmd_subs cur) i = Some sub /\
                  (w = c_name (cmd_info sub) \/ In w (c_aliases (cmd_info sub))).
Proof. exact lookup_cmds_exact. Qed.
Print Assumptions C08_command_words.

(* name and aliases are interchangeable *)
Theorem C08_alias_interchangeable : forall (c : command) w i,
  NoDup (map fst (fill_cmds c)) -> In (w, i) (fill_cmds c) -> find_last (fill_cmds c) w = Some i.
Proof. exact lookup_cmds_alias. Qed.
Print Assumptions C08_alias_interchangeable.

(* a command word in command position switches to that command *)
Theorem C08_switch : forall cfg orc root s r i,
  ps_pos s = [] ->
  nonempty (map (fun _ => 0) (cmd_subs (cur_cmd root s))) = true ->
  ps_ret s = [] ->
  find_last (lk_cmds (ps_lk s)) (ps_arg s) = Some i ->
  parse_non_option cfg orc root s r =
  Ok (fill_parse_state cfg root s (ps_cmd s ++ [i]), set_active r (ps_cmd s) i, None).
Proof. exact C08_enter. Qed.
Print Assumptions C08_switch.

(* a command's options are accepted from its name onwards and its ancestors' options
   stay accepted; the innermost declaration wins when names clash (later bindings
   shadow earlier ones in find_last) *)
Theorem C08_scope_long : forall delim root path i cur sub,
  cmd_at root path = Some cur -> nth_error (cmd_subs cur) i = Some sub ->
  lk_long (make_lookup delim root (path ++ [i])) = lk_long (make_lookup delim root path) ++ snd (fill_opts delim sub).
Proof. exact lookup_enter_long. Qed.
Print Assumptions C08_scope_long.

Theorem C08_scope_short : forall delim root path i cur sub,
  cmd_at root path = Some cur -> nth_error (cmd_subs cur) i = Some sub ->
  lk_short (make_lookup delim root (path ++ [i])) = lk_short (make_lookup delim root path) ++ fst (fill_opts delim sub).
Proof. exact lookup_enter_short. Qed.
Print Assumptions C08_scope_short.

Theorem C08_innermost_wins : forall {A} (a b : list (str * A)) k,
  find_last (a ++ b) k = match find_last b k with Some v => Some v | None => find_last a k end.
Proof. intros A. exact (@find_last_app A). Qed.
Print Assumptions C08_innermost_wins.

(* when sub-commands are optional an unrecognised word is an ordinary argument *)
Theorem C08_optional_word_is_argument : forall cfg orc root s r,
  ps_pos s = [] ->
  find_last (lk_cmds (ps_lk s)) (ps_arg s) = None ->
  c_sub_optional (cmd_info (cur_cmd root s)) = true ->
  parse_non_option cfg orc root s r = add_args orc [ps_arg s] s r.
Proof. exact C08_unknown_word_optional. Qed.
Print Assumptions C08_optional_word_is_argument.

(* ---- added by bin/mkprops (batch 2) ---- *)
From GoFlags Require Import Base.Str Base.Utf8 Golib.Strings Golib.Strconv Model.Types Model.Tag Model.Scan Model.Lookup Model.Convert Model.State Model.Closest Model.Help Model.Parse Model.Ini Model.Complete.
From GoFlags Require Import Proofs.ScopeSpec Proofs.SpellSpec.

(* an ancestor's option is still found - the very same option - after a command word, unless the child redeclares the name *)
Theorem C08_ancestor_option_stays :
  forall (delim : str) (root : command) (path : list nat) (i : nat) (cur sub : command) 
           (n : str) (oc : octx),
         cmd_at root path = Some cur ->
         nth_error (cmd_subs cur) i = Some sub ->
         (find_last (lk_long (make_lookup delim root path)) n = Some oc ->
          find_last (snd (fill_opts delim sub)) n = None ->
          find_last (lk_long (make_lookup delim root (path ++ [i]))) n = Some oc) /\
         (find_last (lk_short (make_lookup delim root path)) n = Some oc ->
          find_last (fst (fill_opts delim sub)) n = None ->
          find_last (lk_short (make_lookup delim root (path ++ [i]))) n = Some oc).
Proof. exact @C08_ancestor_option_in_child_lookup. Qed.
Print Assumptions C08_ancestor_option_stays.

Theorem C08_child_declaration_shadows :
  forall (delim : str) (root : command) (path : list nat) (i : nat) (cur sub : command) 
           (n : str) (oc' : octx),
         cmd_at root path = Some cur ->
         nth_error (cmd_subs cur) i = Some sub ->
         (find_last (snd (fill_opts delim sub)) n = Some oc' ->
          find_last (lk_long (make_lookup delim root (path ++ [i]))) n = Some oc') /\
         (find_last (fst (fill_opts delim sub)) n = Some oc' ->
          find_last (lk_short (make_lookup delim root (path ++ [i]))) n = Some oc').
Proof. exact @C08_child_shadows. Qed.
Print Assumptions C08_child_declaration_shadows.

(* `app --verbose add` and `app add --verbose` are equivalent when --verbose belongs to app and add does not redeclare it *)
Theorem C08_flag_commutes_with_command_word :
  forall (cfg : pconfig) (orc : oracles) (root : command) (help_text : rt -> str) 
           (s1 s2 : pst) (r : rt) (n w : str) (rest : list str) (oc : octx) (i : nat) 
           (cur sub : command),
         ps_sim s1 s2 ->
         ps_pos s1 = [] ->
         ps_ret s1 = [] ->
         ps_lk s1 = make_lookup (pc_nsdelim cfg) root (ps_cmd s1) ->
         cmd_at root (ps_cmd s1) = Some cur ->
         nth_error (cmd_subs cur) i = Some sub ->
         find_last (lk_cmds (ps_lk s1)) w = Some i ->
         argument_is_option w = false ->
         ~ (po_passdd (pc_opts cfg) = true /\ w = s2l "--") ->
         n <> [] ->
         hd 0 n <> 45 ->
         ~ In 61 n ->
         find_last (lk_long (ps_lk s1)) n = Some oc ->
         find_last (snd (fill_opts (pc_nsdelim cfg) sub)) n = None ->
         can_argument (oc_opt oc) = false ->
         o_is_help (oc_opt oc) = false ->
         ps_args s1 = (s2l "--" ++ n) :: w :: rest ->
         ps_args s2 = w :: (s2l "--" ++ n) :: rest ->
         let tok := s2l "--" ++ n in
         let path' := ps_cmd s1 ++ [i] in
         scope_rel cfg root w i (two_steps cfg orc root help_text s1 r) (two_steps cfg orc root help_text s2 r) /\
         (forall r1 : rt,
          opt_set orc (pc_nsdelim cfg) help_text oc None r = Ok (r1, None) ->
          res_eqv (two_steps cfg orc root help_text s1 r) (two_steps cfg orc root help_text s2 r) /\
          two_steps cfg orc root help_text s1 r =
          Ok
            (Continue (fill_parse_state cfg root (ps_with_args s1 w rest) path') (set_active r1 (ps_cmd s1) i))) /\
         (forall (r1 : rt) (e : err),
          opt_set orc (pc_nsdelim cfg) help_text oc None r = Ok (r1, Some e) ->
          two_steps cfg orc root help_text s1 r =
          Ok (Break (ps_with_err (ps_with_args s1 tok (w :: rest)) (Some (wrap_marshal cfg oc e))) r1) /\
          two_steps cfg orc root help_text s2 r =
          Ok
            (Break
               (ps_with_err (fill_parse_state cfg root (ps_with_args s2 tok rest) path')
                  (Some (wrap_marshal cfg oc e))) (set_active r1 (ps_cmd s1) i))).
Proof. exact @C08_commute_flag_and_command. Qed.
Print Assumptions C08_flag_commutes_with_command_word.

Theorem C08_short_flag_commutes_with_command_word :
  forall (cfg : pconfig) (orc : oracles) (root : command) (help_text : rt -> str) 
           (s1 s2 : pst) (r : rt) (c : N) (w : str) (rest : list str) (oc : octx) (i : nat) 
           (cur sub : command),
         ps_sim s1 s2 ->
         ps_pos s1 = [] ->
         ps_ret s1 = [] ->
         ps_lk s1 = make_lookup (pc_nsdelim cfg) root (ps_cmd s1) ->
         cmd_at root (ps_cmd s1) = Some cur ->
         nth_error (cmd_subs cur) i = Some sub ->
         find_last (lk_cmds (ps_lk s1)) w = Some i ->
         argument_is_option w = false ->
         ~ (po_passdd (pc_opts cfg) = true /\ w = s2l "--") ->
         c < 128 ->
         c <> 45 ->
         find_last (lk_short (ps_lk s1)) [c] = Some oc ->
         find_last (fst (fill_opts (pc_nsdelim cfg) sub)) [c] = None ->
         can_argument (oc_opt oc) = false ->
         o_is_help (oc_opt oc) = false ->
         ps_args s1 = [45; c] :: w :: rest ->
         ps_args s2 = w :: [45; c] :: rest ->
         let tok := [45; c] in
         let path' := ps_cmd s1 ++ [i] in
         scope_rel cfg root w i (two_steps cfg orc root help_text s1 r) (two_steps cfg orc root help_text s2 r) /\
         (forall r1 : rt,
          opt_set orc (pc_nsdelim cfg) help_text oc None r = Ok (r1, None) ->
          res_eqv (two_steps cfg orc root help_text s1 r) (two_steps cfg orc root help_text s2 r) /\
          two_steps cfg orc root help_text s1 r =
          Ok
            (Continue (fill_parse_state cfg root (ps_with_args s1 w rest) path') (set_active r1 (ps_cmd s1) i))) /\
         (forall (r1 : rt) (e : err),
          opt_set orc (pc_nsdelim cfg) help_text oc None r = Ok (r1, Some e) ->
          two_steps cfg orc root help_text s1 r =
          Ok (Break (ps_with_err (ps_with_args s1 tok (w :: rest)) (Some (wrap_marshal cfg oc e))) r1) /\
          two_steps cfg orc root help_text s2 r =
          Ok
            (Break
               (ps_with_err (fill_parse_state cfg root (ps_with_args s2 tok rest) path')
                  (Some (wrap_marshal cfg oc e))) (set_active r1 (ps_cmd s1) i))).
Proof. exact @C08_commute_short_flag_and_command. Qed.
Print Assumptions C08_short_flag_commutes_with_command_word.

Theorem C08_set_and_switch_commute :
  forall (orc : oracles) (delim : str) (ht : rt -> str) (oc : octx) (arg : option str) 
           (r r1 : rt) (e : option err) (p : list nat) (i : nat),
         o_is_help (oc_opt oc) = false ->
         opt_set orc delim ht oc arg r = Ok (r1, e) ->
         opt_set orc delim ht oc arg (set_active r p i) = Ok (set_active r1 p i, e).
Proof. exact @C08_set_active_commutes. Qed.
Print Assumptions C08_set_and_switch_commute.

(* a required command that is missing fails with ErrCommandRequired, an unrecognised word with ErrUnknownCommand; nothing is executed *)
Theorem C08_missing_or_unknown_command :
  forall (cfg : pconfig) (root : command) (s : pst) (r : rt),
         ps_err s = None ->
         let c := cur_cmd root s in
         let out := parse_finish cfg root s r in
         (cmd_subs c <> [] ->
          c_sub_optional (cmd_info c) = false ->
          let e := estimate_command root s in
          pr_err (snd out) = Some e /\
          pr_ret (snd out) = Some (ps_arg s :: ps_args s) /\
          match ps_ret s with
          | [] => exists m : str, e = EFlags ErrCommandRequired m
          | _ :: _ => exists m : str, e = EFlags ErrUnknownCommand m
          end /\
          fst out = print_error cfg r e /\
          rt_vals (fst out) = rt_vals r /\
          rt_fl (fst out) = rt_fl r /\
          rt_active (fst out) = rt_active r /\
          l_exec (rt_logs (fst out)) = l_exec (rt_logs r) /\
          l_calls (rt_logs (fst out)) = l_calls (rt_logs r) /\
          l_unknown (rt_logs (fst out)) = l_unknown (rt_logs r) /\
          l_out (rt_logs (fst out)) =
          l_out (rt_logs r) ++ (if po_print (pc_opts cfg) then [(false, err_text e ++ [10])] else [])) /\
         (cmd_subs c = [] \/ c_sub_optional (cmd_info c) = true ->
          pr_err (snd out) = match c_exec (cmd_info c) with
                             | ExErr m => Some (EForeign m)
                             | _ => None
                             end /\ (forall (t : errty) (m : str), pr_err (snd out) <> Some (EFlags t m))).
Proof. exact @C08_required_command_errors. Qed.
Print Assumptions C08_missing_or_unknown_command.

