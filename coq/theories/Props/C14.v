(* C14 - INI reading is robust and pinpoints errors.
   Statements only: each theorem re-states a lemma of Proofs.IniSpec verbatim and is closed by [exact]. *)
From GoFlags Require Import Base.Str Base.Utf8 Golib.Strings Golib.Strconv Model.Types Model.Tag Model.Scan Model.Lookup Model.Convert Model.State Model.Closest Model.Help Model.Parse Model.Ini Model.Complete.
From GoFlags Require Import Proofs.IniSpec.
Open Scope N_scope.

(* a malformed line is reported with its 1-based physical number *)
Theorem C14_first_bad_line_number :
  forall (pre : list str) (bad : str) (post : list str) (m : str) (n : N) (cur : str) (acc : ini_file),
         Forall line_ok pre ->
         classify_line bad = LBad m ->
         read_lines (pre ++ bad :: post) n cur acc = Err (EIni (n + N.of_nat (Datatypes.length pre) + 1) m).
Proof. exact @C14_first_bad_line. Qed.
Print Assumptions C14_first_bad_line_number.

Theorem C14_first_bad_line_text :
  forall (text : str) (pre : list str) (bad : str) (post : list str) (m : str),
         ini_lines text = pre ++ bad :: post ->
         Forall line_ok pre ->
         classify_line bad = LBad m -> read_ini text = Err (EIni (N.of_nat (Datatypes.length pre) + 1) m).
Proof. exact @C14_first_bad_line_read_ini. Qed.
Print Assumptions C14_first_bad_line_text.

Theorem C14_entries_carry_their_line :
  forall (pre : list str) (l : str) (post : list str) (k v : str) (q : bool) 
           (n : N) (cur : str) (acc f : ini_file),
         classify_line l = LEntry k v q ->
         read_lines (pre ++ l :: post) n cur acc = Ok f ->
         exists es : list ini_entry,
           sec_get f (cur_after pre cur) = Some es /\
           In
             {|
               ie_name := k; ie_value := v; ie_quoted := q; ie_line := n + N.of_nat (Datatypes.length pre) + 1
             |} es.
Proof. exact @C14_entry_line_numbers. Qed.
Print Assumptions C14_entries_carry_their_line.

Theorem C14_entries_only_from_lines :
  forall (ls : list str) (n : N) (cur : str) (acc f : ini_file) (s : str) (es : list ini_entry)
           (e : ini_entry),
         read_lines ls n cur acc = Ok f ->
         sec_get f s = Some es ->
         In e es ->
         (exists es0 : list ini_entry, sec_get acc s = Some es0 /\ In e es0) \/
         (exists (j : nat) (l : str),
            nth_error ls j = Some l /\
            classify_line l = LEntry (ie_name e) (ie_value e) (ie_quoted e) /\
            ie_line e = n + N.of_nat j + 1 /\ cur_after (firstn j ls) cur = s).
Proof. exact @C14_entry_line_numbers_conv. Qed.
Print Assumptions C14_entries_only_from_lines.

(* blank and comment lines do not change what the other lines mean; a reported line number shifts by exactly one *)
Theorem C14_noise_lines :
  forall (pre : list str) (l : str) (post : list str) (n : N) (cur : str) (acc : ini_file),
         classify_line l = LSkip ->
         match read_lines (pre ++ l :: post) n cur acc with
         | Ok f1 =>
             match read_lines (pre ++ post) n cur acc with
             | Ok f2 => forget_lines f1 = forget_lines f2
             | _ => False
             end
         | Err (EIni k1 m1) =>
             match read_lines (pre ++ post) n cur acc with
             | Err (EIni k2 m2) =>
                 m1 = m2 /\ k1 = (if k2 <=? n + N.of_nat (Datatypes.length pre) then k2 else k2 + 1)
             | _ => False
             end
         | _ => False
         end.
Proof. exact @C14_noise_invariance. Qed.
Print Assumptions C14_noise_lines.

Theorem C14_noise_lines_multi :
  forall ls ls' : list str,
         skip_ext ls ls' ->
         forall (n n' : N) (cur : str) (acc acc' : ini_file),
         forget_lines acc = forget_lines acc' ->
         match read_lines ls n cur acc with
         | Ok f1 =>
             match read_lines ls' n' cur acc' with
             | Ok f2 => forget_lines f1 = forget_lines f2
             | _ => False
             end
         | Err (EIni _ m1) =>
             match read_lines ls' n' cur acc' with
             | Err (EIni _ m2) => m1 = m2
             | _ => False
             end
         | _ => False
         end.
Proof. exact @C14_noise_invariance_multi. Qed.
Print Assumptions C14_noise_lines_multi.

Theorem C14_crlf_line_ends :
  forall text : list N, ~ In 13 text -> read_ini (crlf text) = read_ini text.
Proof. exact @C14_crlf_read_ini. Qed.
Print Assumptions C14_crlf_line_ends.

(* arbitrarily long lines are reassembled from any chunking *)
Theorem C14_long_lines :
  forall chunks : list str, read_full_line chunks = concat chunks.
Proof. exact @read_full_line_concat. Qed.
Print Assumptions C14_long_lines.

Theorem C14_unknown_section_policy :
  forall (orc : oracles) (delim : str) (ht : rt -> str) (as_defaults : bool) 
           (root : command) (name : str) (es : list ini_entry) (rest : list (str * list ini_entry)) 
           (r : rt) (q : quotes) (dfl : list nat),
         matching_groups root name = [] ->
         apply_sections orc delim ht false as_defaults root ((name, es) :: rest) r q dfl =
         Ok (r, q, Some (EFlags ErrUnknownGroup (s2l "could not find option group `" ++ name ++ s2l "'"))) /\
         apply_sections orc delim ht true as_defaults root ((name, es) :: rest) r q dfl =
         apply_sections orc delim ht true as_defaults root rest r q dfl.
Proof. exact @C14_unknown_section. Qed.
Print Assumptions C14_unknown_section_policy.

Theorem C14_unknown_option_policy :
  forall (orc : oracles) (delim : str) (ht : rt -> str) (as_defaults : bool) 
           (groups : list gref) (e : ini_entry) (r : rt) (q : quotes) (dfl : list nat),
         resolve_entry delim groups (ie_name e) = None ->
         apply_entry orc delim ht false as_defaults groups e r q dfl =
         Ok (r, q, dfl, Some (EIni (ie_line e) (s2l "unknown option: " ++ ie_name e))) /\
         apply_entry orc delim ht true as_defaults groups e r q dfl = Ok (r, q, dfl, None).
Proof. exact @C14_unknown_option. Qed.
Print Assumptions C14_unknown_option_policy.

(* ---- added by bin/mkprops (batch 2) ---- *)
From GoFlags Require Import Base.Str Base.Utf8 Golib.Strings Golib.Strconv Model.Types Model.Tag Model.Scan Model.Lookup Model.Convert Model.State Model.Closest Model.Help Model.Parse Model.Ini Model.Complete.
From GoFlags Require Import Proofs.IniPanicSpec.

(* for any byte sequence the reader returns a file or an error carrying a line number between 1 and the number of lines *)
Theorem C14_reader_never_panics :
  forall text : str,
         (exists f : ini_file, read_ini text = Ok f) \/
         (exists (k : N) (m : str),
            read_ini text = Err (EIni k m) /\ 1 <= k <= N.of_nat (Datatypes.length (ini_lines text))).
Proof. exact @C14_read_never_panics. Qed.
Print Assumptions C14_reader_never_panics.

Theorem C14_apply_only_benign_panics :
  forall (orc : oracles) (delim : str) (ht : rt -> str) (ignore as_defaults : bool) 
           (root : command) (f : ini_file) (r : rt) (t : str),
         ini_apply orc delim ht ignore as_defaults root f r = Panic t -> ParseFrame.benign_panic t.
Proof. exact @C14_apply_panics_benign. Qed.
Print Assumptions C14_apply_only_benign_panics.

(* every error of applying a file carries the line of one of its entries, or is ErrUnknownGroup for one of its sections *)
Theorem C14_errors_are_located :
  forall (orc : oracles) (delim : str) (ht : rt -> str) (ignore as_defaults : bool) 
           (root : command) (f : ini_file) (r r' : rt) (e : err),
         ini_apply orc delim ht ignore as_defaults root f r = Ok (r', Some e) ->
         (exists (name : str) (es : list ini_entry) (en : ini_entry) (msg : str),
            In (name, es) f /\ In en es /\ e = EIni (ie_line en) msg) \/
         ignore = false /\
         (exists (name : str) (es : list ini_entry),
            In (name, es) f /\
            matching_groups root name = [] /\
            e = EFlags ErrUnknownGroup (s2l "could not find option group `" ++ name ++ s2l "'")).
Proof. exact @C14_apply_errors_located. Qed.
Print Assumptions C14_errors_are_located.

(* under IgnoreUnknown, unknown sections and options are skipped and everything else is applied *)
Theorem C14_ignore_unknown_skips_only_unknown :
  forall (orc : oracles) (delim : str) (ht : rt -> str) (as_defaults : bool) 
           (root : command) (f : ini_file) (r : rt) (q : quotes) (dfl : list nat),
         apply_sections orc delim ht true as_defaults root f r q dfl =
         apply_sections orc delim ht true as_defaults root (prune_file delim root f) r q dfl.
Proof. exact @C14_ignore_unknown_applies_rest. Qed.
Print Assumptions C14_ignore_unknown_skips_only_unknown.

Theorem C14_ignore_unknown_error_origin :
  forall (orc : oracles) (delim : str) (ht : rt -> str) (as_defaults : bool) 
           (root : command) (f : ini_file) (r r' : rt) (e : err),
         ini_apply orc delim ht true as_defaults root f r = Ok (r', Some e) ->
         exists (name : str) (es : list ini_entry) (en : ini_entry) (oc : octx),
           In (name, es) f /\
           In en es /\
           matching_groups root name <> [] /\
           resolve_entry delim (matching_groups root name) (ie_name en) = Some oc /\
           (is_map (o_ty (oc_opt oc)) = true /\ e = EIni (ie_line en) err_syntax \/
            (exists (v : option str) (r0 r1 : rt) (er : err),
               set_op orc delim ht as_defaults oc v r0 = Ok (r1, Some er) /\
               e = EIni (ie_line en) (err_text er))).
Proof. exact @C14_ignore_unknown_errors. Qed.
Print Assumptions C14_ignore_unknown_error_origin.

