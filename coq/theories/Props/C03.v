(* C03 - Unconsumed arguments are conserved, in order.  Statements only. *)
From GoFlags Require Import Base.Str Model.Types Model.Lookup Model.State Model.Parse Proofs.ArgsSpec.
Open Scope N_scope.

(* Over the whole argument loop, defaults and the required check (no unknown-option
   handler installed, which may rewrite the argument list): the remaining arguments
   are an in-order subsequence of argv - nothing invented, altered, duplicated or
   reordered; for every declaration, parser option set, store and argv. *)
Theorem C03_subseq : forall cfg orc root help_text args r s' r',
  pc_handler cfg = HNone ->
  parse_core cfg orc root help_text args r = Ok (s', r') ->
  subseq (ps_ret s') args.
Proof. exact C03_subseq_main. Qed.
Print Assumptions C03_subseq.

(* `--` with PassDoubleDash: the untouched tail goes, in order, first to pending
   positional fields and then to the remaining arguments, and the loop stops *)
Theorem C03_terminator_passes_tail : forall cfg orc root help_text s r rest s' r',
  po_passdd (pc_opts cfg) = true ->
  ps_args s = s2l "--" :: rest ->
  step cfg orc root help_text s r = Ok (Break s' r') ->
  exists k, ps_ret s' = ps_ret s ++ skipn k rest.
Proof. exact C03_terminator. Qed.
Print Assumptions C03_terminator_passes_tail.

Theorem C03_terminator_stops : forall cfg orc root help_text s r rest,
  po_passdd (pc_opts cfg) = true ->
  ps_args s = s2l "--" :: rest ->
  forall s' r', step cfg orc root help_text s r <> Ok (Continue s' r').
Proof. exact C03_terminator_always_breaks. Qed.
Print Assumptions C03_terminator_stops.

(* PassAfterNonOption: from the first non-option, non-command token on, everything
   is passed through verbatim *)
Theorem C03_pass_after_non_option : forall cfg orc root help_text s r a rest s' r',
  po_passafter (pc_opts cfg) = true ->
  ps_args s = a :: rest ->
  (po_passdd (pc_opts cfg) && str_eqb a (s2l "--")) = false ->
  argument_is_option a = false ->
  find_last (lk_cmds (ps_lk s)) a = None ->
  step cfg orc root help_text s r = Ok (Break s' r') ->
  ps_err s' = None ->
  exists k, ps_ret s' = ps_ret s ++ skipn k (a :: rest).
Proof. exact C03_pass_after. Qed.
Print Assumptions C03_pass_after_non_option.

(* what addArgs appends to the remaining arguments is always a suffix of its input *)
Theorem C03_add_args_suffix : forall orc toks s r s' r' e,
  add_args orc toks s r = Ok (s', r', e) -> exists k, ps_ret s' = ps_ret s ++ skipn k toks.
Proof. exact add_args_ret_suffix. Qed.
Print Assumptions C03_add_args_suffix.
