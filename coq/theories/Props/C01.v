(* C01 - Option fields hold exactly what the command line denotes.
   Statements only: each theorem re-states a lemma of Proofs.ValueSpec verbatim and is closed by [exact]. *)
From GoFlags Require Import Base.Str Base.Utf8 Golib.Strings Golib.Strconv Model.Types Model.Tag Model.Scan Model.Lookup Model.Convert Model.State Model.Closest Model.Help Model.Parse Model.Ini Model.Complete.
From GoFlags Require Import Proofs.ValueSpec.
Open Scope N_scope.

(* over a whole ParseArgs, a field that is neither bound to an option of the tree nor a positional argument keeps its value (and flags) *)
Theorem C01_untouched :
  forall (cfg : pconfig) (orc : oracles) (root : command) (ht : rt -> str) (args : list str) 
           (r r' : rt) (res0 : presult),
         parse_body cfg orc root ht args r = Ok (r', res0) ->
         forall k : nat,
         (forall oc : octx, In oc (tree_octxs root) -> o_fid (oc_opt oc) <> k) ->
         (forall (p : list nat) (c : command) (a : arg),
          In (p, c) (tree_cmds root) -> In a (cmd_args c) -> a_fid a <> k) ->
         rt_vals r' k = rt_vals r k /\ rt_fl r' k = rt_fl r k.
Proof. exact @C01_untouched_main. Qed.
Print Assumptions C01_untouched.

(* Option.Set touches only its own field, its own flags and the callback log *)
Theorem C01_set_frame :
  forall (orc : oracles) (delim : str) (ht : rt -> str) (oc : octx) (arg : option str) 
           (r r' : rt) (e : option err),
         opt_set orc delim ht oc arg r = Ok (r', e) -> frame_at (o_fid (oc_opt oc)) r r'.
Proof. exact @opt_set_frame. Qed.
Print Assumptions C01_set_frame.

(* a scalar holds the conversion of the argument of the (last) occurrence; a failed conversion leaves the value *)
Theorem C01_scalar :
  forall (orc : oracles) (delim : str) (ht : rt -> str) (oc : octx) (k : kind) (v : str) (r : rt),
         let o := oc_opt oc in
         let fid := o_fid o in
         o_ty o = TScalar k ->
         o_choices o = [] ->
         (forall x : value,
          convert_kind orc (o_base o) v k = Ok (inl x) <->
          (exists r' : rt, opt_set orc delim ht oc (Some v) r = Ok (r', None) /\ rt_vals r' fid = x)) /\
         (forall m : str,
          convert_kind orc (o_base o) v k = Ok (inr m) <->
          (exists r' : rt, opt_set orc delim ht oc (Some v) r = Ok (r', Some (EForeign m)))) /\
         (forall (r' : rt) (e : option err),
          opt_set orc delim ht oc (Some v) r = Ok (r', e) ->
          (e = None \/ (exists m : str, e = Some (EForeign m) /\ rt_vals r' fid = rt_vals r fid)) /\
          rt_fl r' fid = set_flags (rt_fl r fid) /\
          f_isset (rt_fl r' fid) = true /\
          f_prevent (rt_fl r' fid) = true /\
          f_clearref (rt_fl r' fid) = false /\ rt_logs r' = rt_logs r /\ frame_at fid r r').
Proof. exact @opt_set_scalar. Qed.
Print Assumptions C01_scalar.

(* a slice gets one element per occurrence in order; previous contents are discarded at the first occurrence only *)
Theorem C01_slice :
  forall (orc : oracles) (delim : str) (ht : rt -> str) (oc : octx) (e : vtype) 
           (v : str) (x : value) (r : rt),
         let o := oc_opt oc in
         let fid := o_fid o in
         o_ty o = TSlice e ->
         o_choices o = [] ->
         convert orc (o_base o) v e (zero_value e) = Ok (x, None) ->
         let old := if f_clearref (rt_fl r fid) then [] else slice_elems (rt_vals r fid) in
         exists r' : rt,
           opt_set orc delim ht oc (Some v) r = Ok (r', None) /\
           set_result fid r r' (VSlice false (old ++ [x])) /\ f_clearref (rt_fl r' fid) = false.
Proof. exact @opt_set_slice. Qed.
Print Assumptions C01_slice.

Theorem C01_slice_twice :
  forall (orc : oracles) (delim : str) (ht : rt -> str) (oc : octx) (e : vtype) 
           (v1 : str) (x1 : value) (v2 : str) (x2 : value) (r : rt),
         let o := oc_opt oc in
         let fid := o_fid o in
         o_ty o = TSlice e ->
         o_choices o = [] ->
         convert orc (o_base o) v1 e (zero_value e) = Ok (x1, None) ->
         convert orc (o_base o) v2 e (zero_value e) = Ok (x2, None) ->
         let old := if f_clearref (rt_fl r fid) then [] else slice_elems (rt_vals r fid) in
         exists r1 r2 : rt,
           opt_set orc delim ht oc (Some v1) r = Ok (r1, None) /\
           opt_set orc delim ht oc (Some v2) r1 = Ok (r2, None) /\
           rt_vals r2 fid = VSlice false (old ++ [x1; x2]).
Proof. exact @opt_set_slice_twice. Qed.
Print Assumptions C01_slice_twice.

(* a map holds the last value given for each key; key/value split at the first colon *)
Theorem C01_map :
  forall (orc : oracles) (delim : str) (ht : rt -> str) (oc : octx) (kk kv : kind) 
           (v : str) (kx vx : value) (r : rt),
         let o := oc_opt oc in
         let fid := o_fid o in
         o_ty o = TMap kk kv ->
         o_choices o = [] ->
         convert_kind orc (o_base o) (fst (map_split v)) kk = Ok (inl kx) ->
         convert_kind orc (o_base o) (snd (map_split v)) kv = Ok (inl vx) ->
         let old := if f_clearref (rt_fl r fid) then [] else map_elems (rt_vals r fid) in
         exists r' : rt,
           opt_set orc delim ht oc (Some v) r = Ok (r', None) /\
           set_result fid r r' (VMap false (map_set old kx vx)) /\ f_clearref (rt_fl r' fid) = false.
Proof. exact @opt_set_map. Qed.
Print Assumptions C01_map.

(* a flag becomes true when it occurs *)
Theorem C01_flag :
  forall (orc : oracles) (delim : str) (ht : rt -> str) (oc : octx) (r : rt),
         let o := oc_opt oc in
         let fid := o_fid o in
         o_ty o = TScalar KBool ->
         exists r' : rt,
           opt_set orc delim ht oc None r = Ok (r', None) /\
           r' = set_val (set_fl r fid (set_flags (rt_fl r fid))) fid (VBool true) /\
           set_result fid r r' (VBool true).
Proof. exact @opt_set_flag. Qed.
Print Assumptions C01_flag.

(* a callback runs once per occurrence with the converted argument; the field is untouched *)
Theorem C01_callback :
  forall (orc : oracles) (delim : str) (ht : rt -> str),
         (forall (oc : octx) (k : kind) (b : bool) (v : str) (x : value) (fails : bool) (r : rt),
          let o := oc_opt oc in
          let fid := o_fid o in
          o_ty o = TFunc (Some k) b ->
          o_choices o = [] ->
          rt_vals r fid = VFunc false fails ->
          convert_kind orc (o_base o) v k = Ok (inl x) ->
          exists r' : rt,
            opt_set orc delim ht oc (Some v) r = Ok (r', callback_err ht o b fails r') /\
            l_calls (rt_logs r') = l_calls (rt_logs r) ++ [(fid, Some x)] /\
            rt_vals r' = rt_vals r /\
            rt_fl r' fid = set_flags (rt_fl r fid) /\
            (forall k0 : nat, k0 <> fid -> rt_fl r' k0 = rt_fl r k0) /\
            rt_active r' = rt_active r /\
            l_exec (rt_logs r') = l_exec (rt_logs r) /\
            l_unknown (rt_logs r') = l_unknown (rt_logs r) /\ l_out (rt_logs r') = l_out (rt_logs r)) /\
         (forall (oc : octx) (b fails : bool) (r : rt),
          let o := oc_opt oc in
          let fid := o_fid o in
          o_ty o = TFunc None b ->
          o_is_help o = false ->
          rt_vals r fid = VFunc false fails ->
          exists r' : rt,
            opt_set orc delim ht oc None r = Ok (r', callback_err ht o b fails r') /\
            l_calls (rt_logs r') = l_calls (rt_logs r) ++ [(fid, None)] /\
            rt_vals r' = rt_vals r /\
            rt_fl r' fid = set_flags (rt_fl r fid) /\
            (forall k : nat, k <> fid -> rt_fl r' k = rt_fl r k) /\
            rt_active r' = rt_active r /\
            l_exec (rt_logs r') = l_exec (rt_logs r) /\
            l_unknown (rt_logs r') = l_unknown (rt_logs r) /\ l_out (rt_logs r') = l_out (rt_logs r)).
Proof. exact @opt_set_callback. Qed.
Print Assumptions C01_callback.

(* choices are compared byte-exactly before conversion *)
Theorem C01_choices :
  forall (orc : oracles) (delim : str) (ht : rt -> str) (oc : octx) (v : str) (r : rt),
         let o := oc_opt oc in
         let fid := o_fid o in
         (o_choices o <> [] ->
          ~ In v (o_choices o) ->
          let r0 :=
            if (is_map (o_ty o) || is_slice (o_ty o)) && f_clearref (rt_fl r fid) then opt_empty o r else r in
          opt_set orc delim ht oc (Some v) r =
          Ok
            (set_fl r0 fid (set_flags (rt_fl r fid)),
             Some (EFlags ErrInvalidChoice (invalid_choice_msg delim oc v))) /\
          ((is_map (o_ty o) || is_slice (o_ty o)) && f_clearref (rt_fl r fid) = false ->
           rt_vals (set_fl r0 fid (set_flags (rt_fl r fid))) = rt_vals r)) /\
         (In v (o_choices o) ->
          opt_set orc delim ht oc (Some v) r = opt_set orc delim ht (octx_no_choices oc) (Some v) r).
Proof. exact @opt_set_choices. Qed.
Print Assumptions C01_choices.

(* ---- added by bin/mkprops (batch 2) ---- *)
From GoFlags Require Import Base.Str Base.Utf8 Golib.Strings Golib.Strconv Model.Types Model.Tag Model.Scan Model.Lookup Model.Convert Model.State Model.Closest Model.Help Model.Parse Model.Ini Model.Complete.
From GoFlags Require Import Proofs.DenoteSpec.

(* END TO END: on any token list that spells a list of option occurrences (all seven spellings), the whole argument loop is exactly the left-to-right fold of Option.Set over the occurrences: same final state on success, same state and the wrapped error at the first failing occurrence, same panic *)
Theorem C01_argument_loop_is_fold_of_Set :
  forall (cfg : pconfig) (orc : oracles) (root : command) (ht : rt -> str) (lk : lookup)
           (toks : list str) (occs : list occ),
         spells lk toks occs ->
         forall (fuel : nat) (s : pst) (r : rt),
         ps_lk s = lk ->
         ps_args s = toks ->
         (Datatypes.length toks < fuel)%nat ->
         loop_rel cfg orc ht lk s toks occs r (denote orc (pc_nsdelim cfg) ht occs r)
           (run_loop cfg orc root ht fuel s r).
Proof. exact @C01_loop_is_fold. Qed.
Print Assumptions C01_argument_loop_is_fold_of_Set.

Theorem C01_loop_is_fold_from_initial_state :
  forall (cfg : pconfig) (orc : oracles) (root : command) (ht : rt -> str) (args : list str)
           (occs : list occ) (r : rt),
         let lk := make_lookup (pc_nsdelim cfg) root [] in
         spells lk args occs ->
         loop_rel cfg orc ht lk (initial_pst cfg root args) args occs r (denote orc (pc_nsdelim cfg) ht occs r)
           (run_loop cfg orc root ht (S (Datatypes.length args)) (initial_pst cfg root args) r).
Proof. exact @C01_loop_is_fold_initial. Qed.
Print Assumptions C01_loop_is_fold_from_initial_state.

Theorem C01_error_of_a_failing_occurrence :
  forall (cfg : pconfig) (orc : oracles) (ht : rt -> str) (oc : octx) (a : option str) 
           (r r' : rt) (e : err),
         opt_set orc (pc_nsdelim cfg) ht oc a r = Ok (r', Some e) ->
         (exists m : str, e = EFlags ErrInvalidChoice m /\ wrap_marshal cfg oc e = e) \/
         (exists m : str, e = EFlags ErrHelp m /\ wrap_marshal cfg oc e = e) \/
         (exists m : str, e = EForeign m /\ wrap_marshal cfg oc e = marshal_error cfg oc m).
Proof. exact @set_error_wrapped. Qed.
Print Assumptions C01_error_of_a_failing_occurrence.

(* a field with no occurrence keeps value, flags and logged calls *)
Theorem C01_fold_untouched :
  forall (orc : oracles) (delim : str) (ht : rt -> str) (fid : nat) (occs : list occ) 
           (r r' : rt) (e : option err),
         denote orc delim ht occs r = Ok (r', e) ->
         (forall (oc : octx) (a : option str), In (oc, a) occs -> o_fid (oc_opt oc) <> fid) ->
         rt_vals r' fid = rt_vals r fid /\ rt_fl r' fid = rt_fl r fid /\ calls_of fid r' = calls_of fid r.
Proof. exact @C01_denote_untouched. Qed.
Print Assumptions C01_fold_untouched.

(* a scalar holds the conversion of its LAST occurrence's argument *)
Theorem C01_fold_scalar_is_last_occurrence :
  forall (orc : oracles) (delim : str) (ht : rt -> str) (o0 : opt) (k : kind) 
           (occs pre post : list occ) (oc : octx) (v : str) (r r' : rt),
         fid_identifies o0 occs ->
         o_ty o0 = TScalar k ->
         occs = pre ++ (oc, Some v) :: post ->
         o_fid (oc_opt oc) = o_fid o0 ->
         (forall (oc' : octx) (a' : option str), In (oc', a') post -> o_fid (oc_opt oc') <> o_fid o0) ->
         denote orc delim ht occs r = Ok (r', None) ->
         exists x : value,
           convert_kind orc (o_base o0) v k = Ok (inl x) /\
           (forall cur : value, convert orc (o_base o0) v (TScalar k) cur = Ok (x, None)) /\
           rt_vals r' (o_fid o0) = x /\ (o_choices o0 = [] \/ In v (o_choices o0)).
Proof. exact @C01_denote_scalar_last. Qed.
Print Assumptions C01_fold_scalar_is_last_occurrence.

(* a slice holds one element per occurrence, in command-line order *)
Theorem C01_fold_slice_one_element_per_occurrence :
  forall (orc : oracles) (delim : str) (ht : rt -> str) (o0 : opt) (e : vtype) 
           (occs : list occ) (vs : list str) (r r' : rt),
         fid_identifies o0 occs ->
         o_ty o0 = TSlice e ->
         map snd (occs_of (o_fid o0) occs) = map Some vs ->
         vs <> [] ->
         denote orc delim ht occs r = Ok (r', None) ->
         let fid := o_fid o0 in
         let old := if f_clearref (rt_fl r fid) then [] else ValueSpec.slice_elems (rt_vals r fid) in
         exists xs : list value,
           Forall2 (fun (v : str) (x : value) => convert orc (o_base o0) v e (zero_value e) = Ok (x, None)) vs
             xs /\ rt_vals r' fid = VSlice false (old ++ xs) /\ f_clearref (rt_fl r' fid) = false.
Proof. exact @C01_denote_slice_all. Qed.
Print Assumptions C01_fold_slice_one_element_per_occurrence.

Theorem C01_fold_map_last_value_per_key :
  forall (orc : oracles) (delim : str) (ht : rt -> str) (o0 : opt) (kk kv : kind) 
           (occs : list occ) (vs : list str) (r r' : rt),
         fid_identifies o0 occs ->
         o_ty o0 = TMap kk kv ->
         map snd (occs_of (o_fid o0) occs) = map Some vs ->
         vs <> [] ->
         denote orc delim ht occs r = Ok (r', None) ->
         let fid := o_fid o0 in
         let old := if f_clearref (rt_fl r fid) then [] else ValueSpec.map_elems (rt_vals r fid) in
         exists ps : list (value * value),
           Forall2
             (fun (v : str) (p : value * value) =>
              convert_kind orc (o_base o0) (fst (ValueSpec.map_split v)) kk = Ok (inl (fst p)) /\
              convert_kind orc (o_base o0) (snd (ValueSpec.map_split v)) kv = Ok (inl (snd p))) vs ps /\
           rt_vals r' fid = VMap false (fold_left map_put ps old).
Proof. exact @C01_denote_map_fold. Qed.
Print Assumptions C01_fold_map_last_value_per_key.

Theorem C01_fold_flag_true_iff_occurred :
  forall (orc : oracles) (delim : str) (ht : rt -> str) (o0 : opt) (occs : list occ) (r r' : rt),
         fid_identifies o0 occs ->
         o_ty o0 = TScalar KBool ->
         (forall (oc : octx) (a : option str), In (oc, a) occs -> o_fid (oc_opt oc) = o_fid o0 -> a = None) ->
         denote orc delim ht occs r = Ok (r', None) ->
         rt_vals r' (o_fid o0) =
         (if existsb (has_fid (o_fid o0)) occs then VBool true else rt_vals r (o_fid o0)).
Proof. exact @C01_denote_flag_iff. Qed.
Print Assumptions C01_fold_flag_true_iff_occurred.

(* a callback has run once per occurrence, in order, with the converted argument *)
Theorem C01_fold_callback_once_per_occurrence :
  forall (orc : oracles) (delim : str) (ht : rt -> str) (o0 : opt) (ak : option kind) 
           (b : bool) (occs : list occ) (r r' : rt),
         fid_identifies o0 occs ->
         o_ty o0 = TFunc ak b ->
         denote orc delim ht occs r = Ok (r', None) ->
         let fid := o_fid o0 in
         exists xs : list (option value),
           Forall2 (fun (o : occ) (x : option value) => call_entry orc o0 (snd o) x) (occs_of fid occs) xs /\
           calls_of fid r' = calls_of fid r ++ map (fun x : option value => (fid, x)) xs /\
           rt_vals r' fid = rt_vals r fid /\ (occs_of fid occs <> [] -> o_is_help o0 = false).
Proof. exact @C01_denote_callback_log. Qed.
Print Assumptions C01_fold_callback_once_per_occurrence.

Theorem C01_fold_isset_iff_occurred :
  forall (orc : oracles) (delim : str) (ht : rt -> str) (fid : nat) (occs : list occ) (r r' : rt),
         denote orc delim ht occs r = Ok (r', None) ->
         let occurred := existsb (has_fid fid) occs in
         rt_fl r' fid = (if occurred then ValueSpec.set_flags (rt_fl r fid) else rt_fl r fid) /\
         f_isset (rt_fl r' fid) = occurred || f_isset (rt_fl r fid) /\
         f_prevent (rt_fl r' fid) = occurred || f_prevent (rt_fl r fid) /\
         f_clearref (rt_fl r' fid) = negb occurred && f_clearref (rt_fl r fid) /\
         f_isdefault (rt_fl r' fid) = f_isdefault (rt_fl r fid) /\
         f_iniquote (rt_fl r' fid) = f_iniquote (rt_fl r fid) /\
         f_ininame (rt_fl r' fid) = f_ininame (rt_fl r fid) /\ f_deflit (rt_fl r' fid) = f_deflit (rt_fl r fid).
Proof. exact @C01_denote_isset. Qed.
Print Assumptions C01_fold_isset_iff_occurred.

(* values after a successful argument loop are the denoted ones, for every option *)
Theorem C01_values_after_the_loop :
  forall (cfg : pconfig) (orc : oracles) (root : command) (ht : rt -> str) (toks : list str)
           (occs : list occ) (fuel : nat) (s s' : pst) (r r' : rt),
         spells (ps_lk s) toks occs ->
         ps_args s = toks ->
         (Datatypes.length toks < fuel)%nat ->
         run_loop cfg orc root ht fuel s r = Ok (s', r') ->
         ps_err s' = None ->
         denote orc (pc_nsdelim cfg) ht occs r = Ok (r', None) /\
         ps_args s' = [] /\
         ps_arg s' = last toks (ps_arg s) /\
         ps_ret s' = ps_ret s /\
         ps_pos s' = ps_pos s /\
         ps_err s = None /\
         ps_cmd s' = ps_cmd s /\
         ps_lk s' = ps_lk s /\
         rt_active r' = rt_active r /\
         l_exec (rt_logs r') = l_exec (rt_logs r) /\
         l_unknown (rt_logs r') = l_unknown (rt_logs r) /\
         l_out (rt_logs r') = l_out (rt_logs r) /\
         (forall o0 : opt, fid_identifies o0 occs -> field_denotes orc occs r r' o0).
Proof. exact @C01_end_to_end. Qed.
Print Assumptions C01_values_after_the_loop.

(* and they survive the defaults pass *)
Theorem C01_values_after_ParseArgs_core :
  forall (cfg : pconfig) (orc : oracles) (root : command) (ht : rt -> str) (args : list str)
           (occs : list occ) (r r' : rt) (sf : pst) (rf : rt),
         spells (make_lookup (pc_nsdelim cfg) root []) args occs ->
         denote orc (pc_nsdelim cfg) ht occs r = Ok (r', None) ->
         parse_core cfg orc root ht args r = Ok (sf, rf) ->
         forall o0 : opt,
         fid_identifies o0 occs ->
         existsb (has_fid (o_fid o0)) occs = true ->
         rt_vals rf (o_fid o0) = rt_vals r' (o_fid o0) /\
         rt_fl rf (o_fid o0) = rt_fl r' (o_fid o0) /\
         calls_of (o_fid o0) rf = calls_of (o_fid o0) r' /\ field_denotes orc occs r rf o0.
Proof. exact @C01_parse_core_end_to_end. Qed.
Print Assumptions C01_values_after_ParseArgs_core.

