(* C01 - Option fields hold exactly what the command line denotes.
   Statements only: each theorem re-states a lemma of Proofs.ValueSpec verbatim and is closed by [exact]. *)
From GoFlags Require Import Base.Str Base.Utf8 Golib.Strings Golib.Strconv Model.Types Model.Tag Model.Scan Model.Lookup Model.Convert Model.State Model.Closest Model.Help Model.Parse Model.Ini Model.Complete.
From GoFlags Require Import Proofs.ValueSpec.
Open Scope N_scope.

(* over a whole ParseArgs, a field that is neither bound to an option of the tree nor a positional argument keeps its value (and flags) *)
Theorem C01_untouched :
  forall (cfg : pconfig) (orc : oracles) (root : command) (ht : rt -> str) (args : list str) 
           (r r' : rt) (res0 : presult),
         parse_body cfg orc root ht args r = Ok (r', res0) ->
         forall k : nat,
         (forall oc : octx, In oc (tree_octxs root) -> o_fid (oc_opt oc) <> k) ->
         (forall (p : list nat) (c : command) (a : arg),
          In (p, c) (tree_cmds root) -> In a (cmd_args c) -> a_fid a <> k) ->
         rt_vals r' k = rt_vals r k /\ rt_fl r' k = rt_fl r k.
Proof. exact C01_untouched_main. Qed.
Print Assumptions C01_untouched.

(* Option.Set touches only its own field, its own flags and the callback log *)
Theorem C01_set_frame :
  forall (orc : oracles) (delim : str) (ht : rt -> str) (oc : octx) (arg : option str) 
           (r r' : rt) (e : option err),
         opt_set orc delim ht oc arg r = Ok (r', e) -> frame_at (o_fid (oc_opt oc)) r r'.
Proof. exact opt_set_frame. Qed.
Print Assumptions C01_set_frame.

(* a scalar holds the conversion of the argument of the (last) occurrence; a failed conversion leaves the value *)
Theorem C01_scalar :
  forall (orc : oracles) (delim : str) (ht : rt -> str) (oc : octx) (k : kind) (v : str) (r : rt),
         let o := oc_opt oc in
         let fid := o_fid o in
         o_ty o = TScalar k ->
         o_choices o = [] ->
         (forall x : value,
          convert_kind orc (o_base o) v k = Ok (inl x) <->
          (exists r' : rt, opt_set orc delim ht oc (Some v) r = Ok (r', None) /\ rt_vals r' fid = x)) /\
         (forall m : str,
          convert_kind orc (o_base o) v k = Ok (inr m) <->
          (exists r' : rt, opt_set orc delim ht oc (Some v) r = Ok (r', Some (EForeign m)))) /\
         (forall (r' : rt) (e : option err),
          opt_set orc delim ht oc (Some v) r = Ok (r', e) ->
          (e = None \/ (exists m : str, e = Some (EForeign m) /\ rt_vals r' fid = rt_vals r fid)) /\
          rt_fl r' fid = set_flags (rt_fl r fid) /\
          f_isset (rt_fl r' fid) = true /\
          f_prevent (rt_fl r' fid) = true /\
          f_clearref (rt_fl r' fid) = false /\ rt_logs r' = rt_logs r /\ frame_at fid r r').
Proof. exact opt_set_scalar. Qed.
Print Assumptions C01_scalar.

(* a slice gets one element per occurrence in order; previous contents are discarded at the first occurrence only *)
Theorem C01_slice :
  forall (orc : oracles) (delim : str) (ht : rt -> str) (oc : octx) (e : vtype) 
           (v : str) (x : value) (r : rt),
         let o := oc_opt oc in
         let fid := o_fid o in
         o_ty o = TSlice e ->
         o_choices o = [] ->
         convert orc (o_base o) v e (zero_value e) = Ok (x, None) ->
         let old := if f_clearref (rt_fl r fid) then [] else slice_elems (rt_vals r fid) in
         exists r' : rt,
           opt_set orc delim ht oc (Some v) r = Ok (r', None) /\
           set_result fid r r' (VSlice false (old ++ [x])) /\ f_clearref (rt_fl r' fid) = false.
Proof. exact opt_set_slice. Qed.
Print Assumptions C01_slice.

Theorem C01_slice_twice :
  forall (orc : oracles) (delim : str) (ht : rt -> str) (oc : octx) (e : vtype) 
           (v1 : str) (x1 : value) (v2 : str) (x2 : value) (r : rt),
         let o := oc_opt oc in
         let fid := o_fid o in
         o_ty o = TSlice e ->
         o_choices o = [] ->
         convert orc (o_base o) v1 e (zero_value e) = Ok (x1, None) ->
         convert orc (o_base o) v2 e (zero_value e) = Ok (x2, None) ->
         let old := if f_clearref (rt_fl r fid) then [] else slice_elems (rt_vals r fid) in
         exists r1 r2 : rt,
           opt_set orc delim ht oc (Some v1) r = Ok (r1, None) /\
           opt_set orc delim ht oc (Some v2) r1 = Ok (r2, None) /\
           rt_vals r2 fid = VSlice false (old ++ [x1; x2]).
Proof. exact opt_set_slice_twice. Qed.
Print Assumptions C01_slice_twice.

(* a map holds the last value given for each key; key/value split at the first colon *)
Theorem C01_map :
  forall (orc : oracles) (delim : str) (ht : rt -> str) (oc : octx) (kk kv : kind) 
           (v : str) (kx vx : value) (r : rt),
         let o := oc_opt oc in
         let fid := o_fid o in
         o_ty o = TMap kk kv ->
         o_choices o = [] ->
         convert_kind orc (o_base o) (fst (map_split v)) kk = Ok (inl kx) ->
         convert_kind orc (o_base o) (snd (map_split v)) kv = Ok (inl vx) ->
         let old := if f_clearref (rt_fl r fid) then [] else map_elems (rt_vals r fid) in
         exists r' : rt,
           opt_set orc delim ht oc (Some v) r = Ok (r', None) /\
           set_result fid r r' (VMap false (map_set old kx vx)) /\ f_clearref (rt_fl r' fid) = false.
Proof. exact opt_set_map. Qed.
Print Assumptions C01_map.

(* a flag becomes true when it occurs *)
Theorem C01_flag :
  forall (orc : oracles) (delim : str) (ht : rt -> str) (oc : octx) (r : rt),
         let o := oc_opt oc in
         let fid := o_fid o in
         o_ty o = TScalar KBool ->
         exists r' : rt,
           opt_set orc delim ht oc None r = Ok (r', None) /\
           r' = set_val (set_fl r fid (set_flags (rt_fl r fid))) fid (VBool true) /\
           set_result fid r r' (VBool true).
Proof. exact opt_set_flag. Qed.
Print Assumptions C01_flag.

(* a callback runs once per occurrence with the converted argument; the field is untouched *)
Theorem C01_callback :
  forall (orc : oracles) (delim : str) (ht : rt -> str),
         (forall (oc : octx) (k : kind) (b : bool) (v : str) (x : value) (fails : bool) (r : rt),
          let o := oc_opt oc in
          let fid := o_fid o in
          o_ty o = TFunc (Some k) b ->
          o_choices o = [] ->
          rt_vals r fid = VFunc false fails ->
          convert_kind orc (o_base o) v k = Ok (inl x) ->
          exists r' : rt,
            opt_set orc delim ht oc (Some v) r = Ok (r', callback_err ht o b fails r') /\
            l_calls (rt_logs r') = l_calls (rt_logs r) ++ [(fid, Some x)] /\
            rt_vals r' = rt_vals r /\
            rt_fl r' fid = set_flags (rt_fl r fid) /\
            (forall k0 : nat, k0 <> fid -> rt_fl r' k0 = rt_fl r k0) /\
            rt_active r' = rt_active r /\
            l_exec (rt_logs r') = l_exec (rt_logs r) /\
            l_unknown (rt_logs r') = l_unknown (rt_logs r) /\ l_out (rt_logs r') = l_out (rt_logs r)) /\
         (forall (oc : octx) (b fails : bool) (r : rt),
          let o := oc_opt oc in
          let fid := o_fid o in
          o_ty o = TFunc None b ->
          o_is_help o = false ->
          rt_vals r fid = VFunc false fails ->
          exists r' : rt,
            opt_set orc delim ht oc None r = Ok (r', callback_err ht o b fails r') /\
            l_calls (rt_logs r') = l_calls (rt_logs r) ++ [(fid, None)] /\
            rt_vals r' = rt_vals r /\
            rt_fl r' fid = set_flags (rt_fl r fid) /\
            (forall k : nat, k <> fid -> rt_fl r' k = rt_fl r k) /\
            rt_active r' = rt_active r /\
            l_exec (rt_logs r') = l_exec (rt_logs r) /\
            l_unknown (rt_logs r') = l_unknown (rt_logs r) /\ l_out (rt_logs r') = l_out (rt_logs r)).
Proof. exact opt_set_callback. Qed.
Print Assumptions C01_callback.

(* choices are compared byte-exactly before conversion *)
Theorem C01_choices :
  forall (orc : oracles) (delim : str) (ht : rt -> str) (oc : octx) (v : str) (r : rt),
         let o := oc_opt oc in
         let fid := o_fid o in
         (o_choices o <> [] ->
          ~ In v (o_choices o) ->
          let r0 :=
            if (is_map (o_ty o) || is_slice (o_ty o)) && f_clearref (rt_fl r fid) then opt_empty o r else r in
          opt_set orc delim ht oc (Some v) r =
          Ok
            (set_fl r0 fid (set_flags (rt_fl r fid)),
             Some (EFlags ErrInvalidChoice (invalid_choice_msg delim oc v))) /\
          ((is_map (o_ty o) || is_slice (o_ty o)) && f_clearref (rt_fl r fid) = false ->
           rt_vals (set_fl r0 fid (set_flags (rt_fl r fid))) = rt_vals r)) /\
         (In v (o_choices o) ->
          opt_set orc delim ht oc (Some v) r = opt_set orc delim ht (octx_no_choices oc) (Some v) r).
Proof. exact opt_set_choices. Qed.
Print Assumptions C01_choices.

