(* C16 - Help and man page show exactly the visible interface.
   Statements only: each theorem re-states a lemma of Proofs.HelpSpec verbatim and is closed by [exact]. *)
From GoFlags Require Import Base.Str Base.Utf8 Golib.Strings Golib.Strconv Model.Types Model.Tag Model.Scan Model.Lookup Model.Convert Model.State Model.Closest Model.Help Model.Parse Model.Ini Model.Complete.
From GoFlags Require Import Proofs.HelpSpec.
Open Scope N_scope.

(* the rows WriteHelp emits are exactly (same order, same multiplicity) those of the independent specification help_visible_rows *)
Theorem C16_help_rows :
  forall (cfg : pconfig) (root : command) (r : rt) (t : str) (rows : list hrow),
         write_help_rows cfg root r = Ok (t, rows) -> rows = help_visible_rows root r.
Proof. exact @C16_help_rows_exact. Qed.
Print Assumptions C16_help_rows.

Theorem C16_nothing_hidden :
  forall (root : command) (r : rt),
         (forall fid : nat,
          In (HOpt fid) (help_visible_rows root r) ->
          exists (p : list nat) (c : command) (g : group) (ns envns : list str) (o : opt),
            In (p, c) (help_chain root r) /\
            In (g, ns, envns) (cmd_group_ctxs c) /\
            g_hidden (grp_info g) = false /\
            (g_builtin_help (grp_info g) = false \/ p = []) /\
            In o (grp_opts g) /\ o_fid o = fid /\ o_hidden o = false /\ (o_short o <> 0 \/ o_long o <> [])) /\
         (forall fid : nat,
          In (HArg fid) (help_visible_rows root r) ->
          exists (p : list nat) (c : command) (ar : arg),
            In (p, c) (help_chain root r) /\ In ar (cmd_args c) /\ a_fid ar = fid /\ a_desc ar <> []) /\
         (forall n : str,
          In (HCmd n) (help_visible_rows root r) ->
          exists sc : command,
            In sc (cmd_subs (help_innermost root r)) /\
            c_name (cmd_info sc) = n /\ c_hidden (cmd_info sc) = false).
Proof. exact @C16_hidden_never_listed. Qed.
Print Assumptions C16_nothing_hidden.

Theorem C16_everything_visible :
  forall (root : command) (r : rt),
         (forall (p : list nat) (c : command) (g : group) (ns envns : list str) (o : opt),
          In (p, c) (help_chain root r) ->
          In (g, ns, envns) (cmd_group_ctxs c) ->
          g_hidden (grp_info g) = false ->
          g_builtin_help (grp_info g) = false \/ p = [] ->
          In o (grp_opts g) ->
          o_hidden o = false ->
          o_short o <> 0 \/ o_long o <> [] -> In (HOpt (o_fid o)) (help_visible_rows root r)) /\
         (forall (p : list nat) (c : command) (ar : arg),
          In (p, c) (help_chain root r) ->
          In ar (cmd_args c) -> a_desc ar <> [] -> In (HArg (a_fid ar)) (help_visible_rows root r)) /\
         (forall sc : command,
          In sc (cmd_subs (help_innermost root r)) ->
          c_hidden (cmd_info sc) = false -> In (HCmd (c_name (cmd_info sc))) (help_visible_rows root r)).
Proof. exact @C16_help_complete. Qed.
Print Assumptions C16_everything_visible.

(* a masked default's real value never appears in the help *)
Theorem C16_masked_default_help :
  forall (cfg : pconfig) (r1 r2 : rt) (o : opt) (ns envns : list str) (g : group) (a : align),
         o_mask o <> [] -> help_option cfg r1 o ns envns g a = help_option cfg r2 o ns envns g a.
Proof. exact @C16_mask_help_any. Qed.
Print Assumptions C16_masked_default_help.

Theorem C16_masked_default_man :
  forall (cfg : pconfig) (o o' : opt) (ns envns : list str) (g : group),
         opt_eq_except_default o o' ->
         o_mask o <> [] -> man_option cfg o ns envns g = man_option cfg o' ns envns g.
Proof. exact @C16_mask_man. Qed.
Print Assumptions C16_masked_default_man.

Theorem C16_man_rows_exact :
  forall (cfg : pconfig) (c : command),
         man_options cfg c =
         flat_map (man_group_block cfg c)
           (filter (fun gc : group * list str * list str => group_show_in_help (fst (fst gc)))
              (cmd_group_ctxs c)).
Proof. exact @C16_man_rows. Qed.
Print Assumptions C16_man_rows_exact.

(* ---- added by bin/mkprops (batch 2) ---- *)
From GoFlags Require Import Base.Str Base.Utf8 Golib.Strings Golib.Strconv Model.Types Model.Tag Model.Scan Model.Lookup Model.Convert Model.State Model.Closest Model.Help Model.Parse Model.Ini Model.Complete.
From GoFlags Require Import Proofs.ContextSpec Proofs.RowSpec.

(* the usage line names exactly the non-hidden subcommands, sorted (or the word command when there are more than three) *)
Theorem C16_usage_line_lists_visible_commands :
  forall c : command,
         let names := usage_cmd_names c in
         let co := if c_sub_optional (cmd_info c) then s2l "[" else s2l "<" in
         let cc := if c_sub_optional (cmd_info c) then s2l "]" else s2l ">" in
         usage_cmds c false = [] /\
         (cmd_subs c = [] -> usage_cmds c true = []) /\
         (cmd_subs c <> [] ->
          (Datatypes.length (visible_cmds c) <= 3)%nat ->
          usage_cmds c true = s2l " " ++ co ++ join names (s2l " | ") ++ cc) /\
         (cmd_subs c <> [] ->
          (3 < Datatypes.length (visible_cmds c))%nat ->
          usage_cmds c true = s2l " " ++ co ++ s2l "command" ++ cc) /\
         names = map (fun sc : command => c_name (cmd_info sc)) (sorted_visible_cmds c) /\
         Datatypes.length names = Datatypes.length (visible_cmds c) /\
         Permutation.Permutation names (map (fun sc : command => c_name (cmd_info sc)) (visible_cmds c)) /\
         Sorted.StronglySorted (fun x y : str => str_ltb y x = false) names /\
         (forall nm : str,
          In nm names <->
          (exists sc : command,
             In sc (cmd_subs c) /\ c_hidden (cmd_info sc) = false /\ nm = c_name (cmd_info sc))).
Proof. exact @C16_usage_lists_visible_commands. Qed.
Print Assumptions C16_usage_line_lists_visible_commands.

Theorem C16_usage_line_no_hidden_command :
  forall (c : command) (nm : str),
         In nm (usage_cmd_names c) ->
         exists sc : command, In sc (cmd_subs c) /\ c_hidden (cmd_info sc) = false /\ c_name (cmd_info sc) = nm.
Proof. exact @C16_usage_no_hidden_command. Qed.
Print Assumptions C16_usage_line_no_hidden_command.

Theorem C16_usage_line_hidden_not_listed :
  forall c hc : command,
         In hc (cmd_subs c) ->
         (forall sc : command,
          In sc (cmd_subs c) -> c_name (cmd_info sc) = c_name (cmd_info hc) -> c_hidden (cmd_info sc) = true) ->
         ~ In (c_name (cmd_info hc)) (usage_cmd_names c).
Proof. exact @C16_usage_hidden_not_listed. Qed.
Print Assumptions C16_usage_line_hidden_not_listed.

(* CONTENT of an option row: indentation, -s, --namespaced.long, =VALUE-NAME and the choices [a|b|c], with the exact case distinctions *)
Theorem C16_option_row_shows_short_long_value_choices :
  forall (cfg : pconfig) (o : opt) (ns : list str) (a : align),
         let ind := spaces 2 ++ (if al_indent a then spaces 4 else []) in
         let short := s2l "-" ++ encode_rune (o_short o) in
         let long := s2l "--" ++ long_with_ns (pc_nsdelim cfg) ns (o_long o) in
         let value := if can_argument o then s2l "=" ++ o_valname o ++ choices_text o else [] in
         (o_short o <> 0 ->
          o_long o <> [] -> WrapSpec.help_line2 cfg o ns a = ind ++ short ++ s2l ", " ++ long ++ value) /\
         (o_short o <> 0 -> o_long o = [] -> WrapSpec.help_line2 cfg o ns a = ind ++ short ++ value) /\
         (o_short o = 0 ->
          o_long o <> [] ->
          WrapSpec.help_line2 cfg o ns a = ind ++ (if al_hasshort a then spaces 4 else []) ++ long ++ value) /\
         (o_short o = 0 ->
          o_long o = [] ->
          WrapSpec.help_line2 cfg o ns a = ind ++ (if al_hasshort a then spaces 2 else []) ++ value) /\
         (o_long o <> [] ->
          long_with_ns (pc_nsdelim cfg) ns (o_long o) =
          concat (map (fun n : list N => n ++ pc_nsdelim cfg) (filter nonempty ns)) ++ o_long o) /\
         can_argument o = vtype_is_unmarshaler (o_ty o) || negb (vtype_is_bool (o_ty o)) /\
         (o_choices o = [] -> choices_text o = []) /\
         (o_choices o <> [] -> choices_text o = s2l "[" ++ join (o_choices o) (s2l "|") ++ s2l "]") /\
         (forall (r : rt) (envns : list str) (g : group) (row : str),
          help_option cfg r o ns envns g a = Ok row ->
          exists rest : list N, row = WrapSpec.help_line2 cfg o ns a ++ rest ++ [10]).
Proof. exact @C16_option_row_names. Qed.
Print Assumptions C16_option_row_shows_short_long_value_choices.

(* beside a non-empty description: ` (default: D)` with D the mask (nothing at all for the mask `-`) else the default literal, then ` [$NAMESPACED_ENV_KEY]`; nothing beside an empty description *)
Theorem C16_option_row_shows_description_default_env :
  forall (cfg : pconfig) (r : rt) (o : opt) (ns envns : list str) (g : group),
         let deflit := f_deflit (rt_fl r (o_fid o)) in
         let ekey :=
           concat (map (fun n : list N => n ++ pc_envdelim cfg) (filter nonempty envns)) ++ o_envkey o in
         (o_desc o = [] ->
          forall a : align, help_option cfg r o ns envns g a = Ok (WrapSpec.help_line2 cfg o ns a ++ [10])) /\
         (o_desc o <> [] ->
          forall (a : align) (row : str),
          help_option cfg r o ns envns g a = Ok row ->
          let col := (description_start a + 2)%nat in
          row =
          WrapSpec.help_line2 cfg o ns a ++
          spaces (col - rune_count (WrapSpec.help_line2 cfg o ns a)) ++
          wrap_text (HelpSafe.help_desc cfg r o ns envns g) (cols cfg - Z.of_nat col) (spaces col) ++ [10]) /\
         HelpSafe.help_desc cfg r o ns envns g = o_desc o ++ default_part r o ++ env_part cfg o envns /\
         (o_mask o = s2l "-" -> default_part r o = []) /\
         (o_mask o <> [] -> o_mask o <> s2l "-" -> default_part r o = s2l " (default: " ++ o_mask o ++ s2l ")") /\
         (o_mask o = [] -> deflit <> [] -> default_part r o = s2l " (default: " ++ deflit ++ s2l ")") /\
         (o_mask o = [] -> deflit = [] -> default_part r o = []) /\
         (o_envkey o = [] -> env_part cfg o envns = []) /\
         (o_envkey o <> [] -> env_part cfg o envns = s2l " [$" ++ ekey ++ s2l "]") /\
         (o_envkey o <> [] -> env_key (pc_envdelim cfg) (oc_of o ns envns g) = ekey).
Proof. exact @C16_option_row_description. Qed.
Print Assumptions C16_option_row_shows_description_default_env.

(* with a mask the row does not depend on the default at all *)
Theorem C16_masked_default_never_in_a_row :
  forall (cfg : pconfig) (r1 r2 : rt) (o : opt) (d ns envns : list str) (g : group) (a : align),
         o_mask o <> [] ->
         HelpSafe.help_desc cfg r1 o ns envns g = HelpSafe.help_desc cfg r2 o ns envns g /\
         HelpSafe.help_desc cfg r1 (HelpSpec.opt_with_default o d) ns envns g =
         HelpSafe.help_desc cfg r2 o ns envns g /\
         help_option cfg r1 (HelpSpec.opt_with_default o d) ns envns g a = help_option cfg r2 o ns envns g a /\
         HelpSafe.help_desc cfg r1 o ns envns g =
         o_desc o ++
         (if str_eqb (o_mask o) (s2l "-") then [] else s2l " (default: " ++ o_mask o ++ s2l ")") ++
         env_part cfg o envns.
Proof. exact @C16_masked_default_never_in_row. Qed.
Print Assumptions C16_masked_default_never_in_a_row.

(* the visible sub-commands of the innermost command, sorted, each with its description and ` (aliases: a, b)` beside it *)
Theorem C16_command_rows_show_description_and_aliases :
  forall (cfg : pconfig) (root : command) (r : rt) (out : str) (rows : list hrow),
         write_help_rows cfg root r = Ok (out, rows) ->
         let inner := HelpSpec.help_innermost root r in
         let sc := sorted_visible_cmds inner in
         let col := cmd_col sc in
         Permutation.Permutation sc (filter (fun c : command => negb (c_hidden (cmd_info c))) (cmd_subs inner)) /\
         Sorted.StronglySorted
           (fun x y : command => str_ltb (c_name (cmd_info y)) (c_name (cmd_info x)) = false) sc /\
         (exists pre : list N,
            out =
            pre ++
            match sc with
            | [] => []
            | _ :: _ => [10] ++ s2l "Available commands:" ++ [10] ++ concat (map (cmd_row_text col) sc)
            end) /\
         (forall c : command, In c sc -> (rune_count (c_name (cmd_info c)) <= col)%nat) /\
         (sc <> [] -> exists c : command, In c sc /\ rune_count (c_name (cmd_info c)) = col) /\
         (forall c : command,
          In c (cmd_subs inner) ->
          c_hidden (cmd_info c) = false ->
          exists (l1 l2 : list command) (pre : list N),
            sc = l1 ++ c :: l2 /\
            out =
            pre ++
            [10] ++
            s2l "Available commands:" ++
            [10] ++
            concat (map (cmd_row_text col) l1) ++ cmd_row_text col c ++ concat (map (cmd_row_text col) l2)) /\
         (forall c : command,
          let name := c_name (cmd_info c) in
          let sd := g_short (grp_info (cmd_group c)) in
          let als := c_aliases (cmd_info c) in
          (sd = [] -> cmd_row_text col c = s2l "  " ++ name ++ [10]) /\
          (sd <> [] ->
           als = [] ->
           cmd_row_text col c = s2l "  " ++ name ++ spaces (col - rune_count name) ++ s2l "  " ++ sd ++ [10]) /\
          (sd <> [] ->
           als <> [] ->
           cmd_row_text col c =
           s2l "  " ++
           name ++
           spaces (col - rune_count name) ++
           s2l "  " ++ sd ++ s2l " (aliases: " ++ join als (s2l ", ") ++ s2l ")" ++ [10]) /\
          (In c sc -> rune_count (name ++ spaces (col - rune_count name)) = col)).
Proof. exact @C16_command_row_content. Qed.
Print Assumptions C16_command_rows_show_description_and_aliases.

Theorem C16_argument_rows_show_name_and_description :
  forall (cfg : pconfig) (root : command) (r : rt) (out : str) (rows : list hrow),
         write_help_rows cfg root r = Ok (out, rows) ->
         forall (p : list nat) (c : command),
         In (p, c) (HelpSpec.help_chain root r) ->
         let col := (description_start (HelpSafe.help_align cfg root r) + 2)%nat in
         let dargs := filter (fun ar : arg => nonempty (a_desc ar)) (cmd_args c) in
         (dargs <> [] ->
          exists pre post : list N,
            out = pre ++ HelpSafe.arg_head p c ++ concat (map (arg_row_text cfg col) dargs) ++ post) /\
         HelpSafe.arg_head p c =
         (if is_root_path p
          then [10] ++ s2l "Arguments:" ++ [10]
          else [10] ++ s2l "[" ++ c_name (cmd_info c) ++ s2l " command arguments]" ++ [10]) /\
         (forall ar : arg,
          In ar (cmd_args c) ->
          a_desc ar <> [] ->
          let name := s2l "  " ++ a_name ar ++ s2l ":" in
          arg_row_text cfg col ar =
          name ++
          spaces (col - rune_count name) ++
          wrap_text (a_desc ar) (cols cfg - 1 - Z.of_nat col) (spaces col) ++ [10] /\
          (rune_count name < col)%nat /\
          rune_count (name ++ spaces (col - rune_count name)) = col /\
          (exists pre post : list N, out = pre ++ arg_row_text cfg col ar ++ post)).
Proof. exact @C16_argument_row_content. Qed.
Print Assumptions C16_argument_rows_show_name_and_description.

(* the man page entry of an option, piece by piece (names, value name, default or mask or env-as-default, required mark, description); it shows no choices *)
Theorem C16_man_option_entry_content :
  forall (cfg : pconfig) (o : opt) (ns envns : list str) (g : group),
         let short := s2l "\fB\-" ++ encode_rune (o_short o) ++ s2l "\fR" in
         let long := s2l "\fB\-\-" ++ man_quote (long_with_ns (pc_nsdelim cfg) ns (o_long o)) ++ s2l "\fR" in
         let ekey :=
           concat (map (fun n : list N => n ++ pc_envdelim cfg) (filter nonempty envns)) ++ o_envkey o in
         man_option cfg o ns envns g =
         s2l ".TP" ++
         [10] ++
         s2l "\fB" ++
         man_names cfg o ns ++
         man_value o ++ man_default cfg o envns ++ man_required o ++ s2l "\fP" ++ [10] ++ man_description o /\
         (o_short o <> 0 -> o_long o <> [] -> man_names cfg o ns = short ++ s2l ", " ++ long) /\
         (o_short o <> 0 -> o_long o = [] -> man_names cfg o ns = short) /\
         (o_short o = 0 -> o_long o <> [] -> man_names cfg o ns = long) /\
         (o_short o = 0 -> o_long o = [] -> man_names cfg o ns = []) /\
         (o_optional o = true ->
          man_value o =
          s2l " [\fI" ++
          man_quote (o_valname o) ++
          s2l "=" ++ man_quote (join (map quote (o_optval o)) (s2l ", ")) ++ s2l "\fR]") /\
         (o_optional o = false ->
          o_valname o <> [] -> man_value o = s2l " \fI" ++ man_quote (o_valname o) ++ s2l "\fR") /\
         (o_optional o = false -> o_valname o = [] -> man_value o = []) /\
         (o_mask o = s2l "-" -> man_default cfg o envns = []) /\
         (o_mask o <> [] ->
          o_mask o <> s2l "-" ->
          man_default cfg o envns = s2l " <default: \fI" ++ man_quote (o_mask o) ++ s2l "\fR>") /\
         (o_mask o = [] ->
          o_default o <> [] ->
          man_default cfg o envns =
          s2l " <default: \fI" ++ man_quote (join (map quote (o_default o)) (s2l ", ")) ++ s2l "\fR>") /\
         (o_mask o = [] ->
          o_default o = [] ->
          o_envkey o <> [] ->
          man_default cfg o envns = s2l " <default: \fI$" ++ man_quote ekey ++ s2l "\fR>" /\
          env_key (pc_envdelim cfg) (oc_of o ns envns g) = ekey) /\
         (o_mask o = [] -> o_default o = [] -> o_envkey o = [] -> man_default cfg o envns = []) /\
         (o_required o = true -> man_required o = s2l " (\fIrequired\fR)") /\
         (o_required o = false -> man_required o = []) /\
         (o_desc o = [] -> man_description o = []) /\
         (o_desc o <> [] -> man_description o = format_for_man (o_desc o) ++ [10]).
Proof. exact @C16_man_option_row_content. Qed.
Print Assumptions C16_man_option_entry_content.

Theorem C16_option_row_is_in_the_help_text :
  forall (cfg : pconfig) (root : command) (r : rt) (out : str) (rows : list hrow),
         write_help_rows cfg root r = Ok (out, rows) ->
         forall (p : list nat) (c : command) (g : group) (ns envns : list str) (o : opt),
         In (p, c) (HelpSpec.help_chain root r) ->
         In (g, ns, envns) (cmd_group_ctxs c) ->
         g_hidden (grp_info g) = false ->
         (g_builtin_help (grp_info g) = true -> p = []) ->
         In o (grp_opts g) ->
         opt_show_in_help o = true ->
         exists (row : str) (pre post : list N),
           help_option cfg r o ns envns g (row_align cfg root r p) = Ok row /\ out = pre ++ row ++ post.
Proof. exact @C16_option_row_in_help. Qed.
Print Assumptions C16_option_row_is_in_the_help_text.

Theorem C16_man_option_entry_is_in_the_page :
  forall (cfg : pconfig) (c : command) (g : group) (ns envns : list str) (o : opt),
         In (g, ns, envns) (cmd_group_ctxs c) ->
         group_show_in_help g = true ->
         In o (grp_opts g) ->
         opt_show_in_help o = true ->
         exists pre post : list N, man_options cfg c = pre ++ man_option cfg o ns envns g ++ post.
Proof. exact @C16_man_option_row_in_page. Qed.
Print Assumptions C16_man_option_entry_is_in_the_page.

