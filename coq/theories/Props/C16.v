(* C16 - Help and man page show exactly the visible interface.
   Statements only: each theorem re-states a lemma of Proofs.HelpSpec verbatim and is closed by [exact]. *)
From GoFlags Require Import Base.Str Base.Utf8 Golib.Strings Golib.Strconv Model.Types Model.Tag Model.Scan Model.Lookup Model.Convert Model.State Model.Closest Model.Help Model.Parse Model.Ini Model.Complete.
From GoFlags Require Import Proofs.HelpSpec.
Open Scope N_scope.

(* the rows WriteHelp emits are exactly (same order, same multiplicity) those of the independent specification help_visible_rows *)
Theorem C16_help_rows :
  forall (cfg : pconfig) (root : command) (r : rt) (t : str) (rows : list hrow),
         write_help_rows cfg root r = Ok (t, rows) -> rows = help_visible_rows root r.
Proof. exact @C16_help_rows_exact. Qed.
Print Assumptions C16_help_rows.

Theorem C16_nothing_hidden :
  forall (root : command) (r : rt),
         (forall fid : nat,
          In (HOpt fid) (help_visible_rows root r) ->
          exists (p : list nat) (c : command) (g : group) (ns envns : list str) (o : opt),
            In (p, c) (help_chain root r) /\
            In (g, ns, envns) (cmd_group_ctxs c) /\
            g_hidden (grp_info g) = false /\
            (g_builtin_help (grp_info g) = false \/ p = []) /\
            In o (grp_opts g) /\ o_fid o = fid /\ o_hidden o = false /\ (o_short o <> 0 \/ o_long o <> [])) /\
         (forall fid : nat,
          In (HArg fid) (help_visible_rows root r) ->
          exists (p : list nat) (c : command) (ar : arg),
            In (p, c) (help_chain root r) /\ In ar (cmd_args c) /\ a_fid ar = fid /\ a_desc ar <> []) /\
         (forall n : str,
          In (HCmd n) (help_visible_rows root r) ->
          exists sc : command,
            In sc (cmd_subs (help_innermost root r)) /\
            c_name (cmd_info sc) = n /\ c_hidden (cmd_info sc) = false).
Proof. exact @C16_hidden_never_listed. Qed.
Print Assumptions C16_nothing_hidden.

Theorem C16_everything_visible :
  forall (root : command) (r : rt),
         (forall (p : list nat) (c : command) (g : group) (ns envns : list str) (o : opt),
          In (p, c) (help_chain root r) ->
          In (g, ns, envns) (cmd_group_ctxs c) ->
          g_hidden (grp_info g) = false ->
          g_builtin_help (grp_info g) = false \/ p = [] ->
          In o (grp_opts g) ->
          o_hidden o = false ->
          o_short o <> 0 \/ o_long o <> [] -> In (HOpt (o_fid o)) (help_visible_rows root r)) /\
         (forall (p : list nat) (c : command) (ar : arg),
          In (p, c) (help_chain root r) ->
          In ar (cmd_args c) -> a_desc ar <> [] -> In (HArg (a_fid ar)) (help_visible_rows root r)) /\
         (forall sc : command,
          In sc (cmd_subs (help_innermost root r)) ->
          c_hidden (cmd_info sc) = false -> In (HCmd (c_name (cmd_info sc))) (help_visible_rows root r)).
Proof. exact @C16_help_complete. Qed.
Print Assumptions C16_everything_visible.

(* a masked default's real value never appears in the help *)
Theorem C16_masked_default_help :
  forall (cfg : pconfig) (r1 r2 : rt) (o : opt) (ns envns : list str) (g : group) (a : align),
         o_mask o <> [] -> help_option cfg r1 o ns envns g a = help_option cfg r2 o ns envns g a.
Proof. exact @C16_mask_help_any. Qed.
Print Assumptions C16_masked_default_help.

Theorem C16_masked_default_man :
  forall (cfg : pconfig) (o o' : opt) (ns envns : list str) (g : group),
         opt_eq_except_default o o' ->
         o_mask o <> [] -> man_option cfg o ns envns g = man_option cfg o' ns envns g.
Proof. exact @C16_mask_man. Qed.
Print Assumptions C16_masked_default_man.

Theorem C16_man_rows_exact :
  forall (cfg : pconfig) (c : command),
         man_options cfg c =
         flat_map (man_group_block cfg c)
           (filter (fun gc : group * list str * list str => group_show_in_help (fst (fst gc)))
              (cmd_group_ctxs c)).
Proof. exact @C16_man_rows. Qed.
Print Assumptions C16_man_rows_exact.

(* ---- added by bin/mkprops (batch 2) ---- *)
From GoFlags Require Import Base.Str Base.Utf8 Golib.Strings Golib.Strconv Model.Types Model.Tag Model.Scan Model.Lookup Model.Convert Model.State Model.Closest Model.Help Model.Parse Model.Ini Model.Complete.
From GoFlags Require Import Proofs.ContextSpec.

(* the usage line names exactly the non-hidden subcommands, sorted (or the word command when there are more than three) *)
Theorem C16_usage_line_lists_visible_commands :
  forall c : command,
         let names := usage_cmd_names c in
         let co := if c_sub_optional (cmd_info c) then s2l "[" else s2l "<" in
         let cc := if c_sub_optional (cmd_info c) then s2l "]" else s2l ">" in
         usage_cmds c false = [] /\
         (cmd_subs c = [] -> usage_cmds c true = []) /\
         (cmd_subs c <> [] ->
          (Datatypes.length (visible_cmds c) <= 3)%nat ->
          usage_cmds c true = s2l " " ++ co ++ join names (s2l " | ") ++ cc) /\
         (cmd_subs c <> [] ->
          (3 < Datatypes.length (visible_cmds c))%nat ->
          usage_cmds c true = s2l " " ++ co ++ s2l "command" ++ cc) /\
         names = map (fun sc : command => c_name (cmd_info sc)) (sorted_visible_cmds c) /\
         Datatypes.length names = Datatypes.length (visible_cmds c) /\
         Permutation.Permutation names (map (fun sc : command => c_name (cmd_info sc)) (visible_cmds c)) /\
         Sorted.StronglySorted (fun x y : str => str_ltb y x = false) names /\
         (forall nm : str,
          In nm names <->
          (exists sc : command,
             In sc (cmd_subs c) /\ c_hidden (cmd_info sc) = false /\ nm = c_name (cmd_info sc))).
Proof. exact @C16_usage_lists_visible_commands. Qed.
Print Assumptions C16_usage_line_lists_visible_commands.

Theorem C16_usage_line_no_hidden_command :
  forall (c : command) (nm : str),
         In nm (usage_cmd_names c) ->
         exists sc : command, In sc (cmd_subs c) /\ c_hidden (cmd_info sc) = false /\ c_name (cmd_info sc) = nm.
Proof. exact @C16_usage_no_hidden_command. Qed.
Print Assumptions C16_usage_line_no_hidden_command.

Theorem C16_usage_line_hidden_not_listed :
  forall c hc : command,
         In hc (cmd_subs c) ->
         (forall sc : command,
          In sc (cmd_subs c) -> c_name (cmd_info sc) = c_name (cmd_info hc) -> c_hidden (cmd_info sc) = true) ->
         ~ In (c_name (cmd_info hc)) (usage_cmd_names c).
Proof. exact @C16_usage_hidden_not_listed. Qed.
Print Assumptions C16_usage_line_hidden_not_listed.

