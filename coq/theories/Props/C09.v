(* C09 - Commands run exactly once and only after a fully successful parse. *)
From GoFlags Require Import Base.Str Model.Types Model.State Model.Parse Proofs.ParseFrame.
Open Scope N_scope.

(* For every declaration, parser option set, handler, store and argv: either nothing
   was invoked, or exactly one invocation happened - for the innermost command, with
   precisely the remaining arguments that are returned - and if it failed its error
   is returned unchanged. *)
Theorem C09_dispatch : forall cfg orc root help_text args r r' res,
  parse_body cfg orc root help_text args r = Ok (r', res) ->
  let old := l_exec (rt_logs r) in
  let new := l_exec (rt_logs r') in
  (new = old) \/
  (exists c a, new = old ++ [(c, a)] /\ pr_err res = None /\ pr_ret res = Some a) \/
  (exists c a m, new = old ++ [(Some c, a)] /\ pr_err res = Some (EForeign m)).
Proof. exact C09_dispatch_main. Qed.
Print Assumptions C09_dispatch.

(* any rejection that is a *flags.Error (unknown option, bad or missing value, missing
   required item, unknown or missing command, help request) comes with no invocation *)
Theorem C09_no_execution_on_parse_error : forall cfg orc root help_text args r r' res t m,
  parse_body cfg orc root help_text args r = Ok (r', res) ->
  pr_err res = Some (EFlags t m) ->
  l_exec (rt_logs r') = l_exec (rt_logs r).
Proof. exact C09_no_exec_on_flags_error. Qed.
Print Assumptions C09_no_execution_on_parse_error.

(* the argument loop and the application of defaults never execute anything *)
Theorem C09_loop_never_executes : forall cfg orc root help_text args r s' r',
  parse_core cfg orc root help_text args r = Ok (s', r') ->
  l_exec (rt_logs r') = l_exec (rt_logs r) /\ l_out (rt_logs r') = l_out (rt_logs r).
Proof. exact parse_core_logs. Qed.
Print Assumptions C09_loop_never_executes.

(* ---- added by bin/mkprops (batch 2) ---- *)
From GoFlags Require Import Base.Str Base.Utf8 Golib.Strings Golib.Strconv Model.Types Model.Tag Model.Scan Model.Lookup Model.Convert Model.State Model.Closest Model.Help Model.Parse Model.Ini Model.Complete.
From GoFlags Require Import Proofs.RequiredSpec.

(* in completion mode nothing is executed, no callback runs, no value is stored *)
Theorem C09_completion_mode_executes_nothing :
  forall (cfg : pconfig) (orc : oracles) (w : Scenario.world) (args : list str) 
           (w' : Scenario.world) (items : option (list (str * str))),
         Scenario.complete_args cfg orc w args = Ok (w', items) ->
         l_exec (rt_logs (Scenario.w_rt w')) = l_exec (rt_logs (Scenario.w_rt w)) /\
         l_out (rt_logs (Scenario.w_rt w')) = l_out (rt_logs (Scenario.w_rt w)) /\
         l_calls (rt_logs (Scenario.w_rt w')) = l_calls (rt_logs (Scenario.w_rt w)) /\
         l_unknown (rt_logs (Scenario.w_rt w')) = l_unknown (rt_logs (Scenario.w_rt w)) /\
         rt_vals (Scenario.w_rt w') = rt_vals (Scenario.w_rt w) /\
         rt_active (Scenario.w_rt w') = rt_active (Scenario.w_rt w) /\
         (forall k : nat,
          f_isset (rt_fl (Scenario.w_rt w') k) = f_isset (rt_fl (Scenario.w_rt w) k) /\
          f_isdefault (rt_fl (Scenario.w_rt w') k) = f_isdefault (rt_fl (Scenario.w_rt w) k) /\
          f_prevent (rt_fl (Scenario.w_rt w') k) = f_prevent (rt_fl (Scenario.w_rt w) k) /\
          f_iniquote (rt_fl (Scenario.w_rt w') k) = f_iniquote (rt_fl (Scenario.w_rt w) k) /\
          f_ininame (rt_fl (Scenario.w_rt w') k) = f_ininame (rt_fl (Scenario.w_rt w) k)) /\
         Scenario.w_attached w' = Scenario.w_attached w /\ Scenario.w_internal w' = Scenario.w_internal w.
Proof. exact @C09_completion_executes_nothing. Qed.
Print Assumptions C09_completion_mode_executes_nothing.

