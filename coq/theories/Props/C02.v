(* C02 - All documented spellings of an option occurrence are interchangeable.
   (quoted-literal part; the spelling-equivalence theorems are added below as they
   are proved) *)
From GoFlags Require Import Base.Str Golib.Strconv Proofs.QuoteSpec.
Open Scope N_scope.

(* a value written as a double-quoted Go string literal denotes exactly that value,
   for every byte string (valid UTF-8 or not) *)
Theorem C02_quoted_value_roundtrip : forall s, bytes_ok s -> unquote (quote s) = Some s.
Proof. exact quote_unquote. Qed.
Print Assumptions C02_quoted_value_roundtrip.

Theorem C02_quoted_literal_starts_with_quote : forall s, exists body, quote s = 34 :: body.
Proof. exact quote_starts_with_dq. Qed.
Print Assumptions C02_quoted_literal_starts_with_quote.
