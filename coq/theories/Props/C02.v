(* C02 - All documented spellings of an option occurrence are interchangeable.
   (quoted-literal part; the spelling-equivalence theorems are added below as they
   are proved) *)
From GoFlags Require Import Base.Str Golib.Strconv Proofs.QuoteSpec.
Open Scope N_scope.

(* a value written as a double-quoted Go string literal denotes exactly that value,
   for every byte string (valid UTF-8 or not) *)
Theorem C02_quoted_value_roundtrip : forall s, bytes_ok s -> unquote (quote s) = Some s.
Proof. exact quote_unquote. Qed.
Print Assumptions C02_quoted_value_roundtrip.

Theorem C02_quoted_literal_starts_with_quote : forall s, exists body, quote s = 34 :: body.
Proof. exact quote_starts_with_dq. Qed.
Print Assumptions C02_quoted_literal_starts_with_quote.

(* ---- added by bin/mkprops ---- *)
From GoFlags Require Import Base.Str Base.Utf8 Golib.Strings Golib.Strconv Model.Types Model.Tag Model.Scan Model.Lookup Model.Convert Model.State Model.Closest Model.Help Model.Parse Model.Ini Model.Complete.
From GoFlags Require Import Proofs.SpellSpec.

(* --name=V and --name V are interchangeable (up to the last-popped token) *)
Theorem C02_long_equals_vs_separate :
  forall (cfg : pconfig) (orc : oracles) (root : command) (help_text : rt -> str) 
           (s1 s2 : pst) (r : rt) (n V : str) (rest : list str) (oc : octx),
         ps_sim s1 s2 ->
         n <> [] ->
         hd 0 n <> 45 ->
         ~ In 61 n ->
         find_last (lk_long (ps_lk s1)) n = Some oc ->
         can_argument (oc_opt oc) = true ->
         o_optional (oc_opt oc) = false ->
         is_valid_value (oc_opt oc) V = true ->
         ~ (po_passdd (pc_opts cfg) = true /\ V = s2l "--") ->
         ps_args s1 = (s2l "--" ++ n ++ [61] ++ V) :: rest ->
         ps_args s2 = (s2l "--" ++ n) :: V :: rest ->
         res_eqv (step cfg orc root help_text s1 r) (step cfg orc root help_text s2 r).
Proof. exact @C02_long_eq_vs_separate. Qed.
Print Assumptions C02_long_equals_vs_separate.

(* -xV, -x=V and -x V are interchangeable for every valid rune x *)
Theorem C02_short_spellings :
  forall (cfg : pconfig) (orc : oracles) (root : command) (help_text : rt -> str) 
           (s1 s2 s3 : pst) (r : rt) (c : N) (V : str) (rest : list str) (oc : octx),
         ps_sim s1 s2 ->
         ps_sim s1 s3 ->
         valid_rune c = true ->
         c <> 45 ->
         c <> 61 ->
         find_last (lk_short (ps_lk s1)) (encode_rune c) = Some oc ->
         can_argument (oc_opt oc) = true ->
         o_optional (oc_opt oc) = false ->
         V <> [] ->
         hd 0 V <> 61 ->
         is_valid_value (oc_opt oc) V = true ->
         ~ (po_passdd (pc_opts cfg) = true /\ V = s2l "--") ->
         ps_args s1 = (45 :: encode_rune c ++ V) :: rest ->
         ps_args s2 = (45 :: encode_rune c ++ 61 :: V) :: rest ->
         ps_args s3 = (45 :: encode_rune c) :: V :: rest ->
         res_eqv (step cfg orc root help_text s1 r) (step cfg orc root help_text s2 r) /\
         res_eqv (step cfg orc root help_text s1 r) (step cfg orc root help_text s3 r).
Proof. exact @C02_short_forms. Qed.
Print Assumptions C02_short_spellings.

Theorem C02_short_dispatch_eq :
  forall (cfg : pconfig) (orc : oracles) (help_text : rt -> str) (s : pst) (r : rt) 
           (c : N) (V : str) (oc : octx),
         valid_rune c = true ->
         find_last (lk_short (ps_lk s)) (encode_rune c) = Some oc ->
         parse_short cfg orc help_text (encode_rune c) (Some V) s r =
         parse_option cfg orc help_text oc (negb (o_optional (oc_opt oc))) (Some V) s r /\
         (V <> [] ->
          can_argument (oc_opt oc) = true ->
          parse_short cfg orc help_text (encode_rune c ++ V) None s r =
          parse_option cfg orc help_text oc (negb (o_optional (oc_opt oc))) (Some V) s r) /\
         parse_short cfg orc help_text (encode_rune c) None s r =
         parse_option cfg orc help_text oc (negb (o_optional (oc_opt oc))) None s r.
Proof. exact @C02_short_dispatch. Qed.
Print Assumptions C02_short_dispatch_eq.

(* a cluster -ab of flags is interchangeable with -a -b *)
Theorem C02_cluster_eq :
  forall (cfg : pconfig) (orc : oracles) (root : command) (help_text : rt -> str) 
           (s1 s2 : pst) (r : rt) (a b : N) (rest : list str) (oca ocb : octx),
         ps_sim s1 s2 ->
         a < 128 ->
         b < 128 ->
         a <> 45 ->
         b <> 45 ->
         b <> 61 ->
         find_last (lk_short (ps_lk s1)) (encode_rune a) = Some oca ->
         find_last (lk_short (ps_lk s1)) (encode_rune b) = Some ocb ->
         can_argument (oc_opt oca) = false ->
         can_argument (oc_opt ocb) = false ->
         ps_args s1 = [45; a; b] :: rest ->
         ps_args s2 = [45; a] :: [45; b] :: rest ->
         cluster_rel [45; b] (step cfg orc root help_text s1 r) (two_steps cfg orc root help_text s2 r) /\
         (forall r1 : rt,
          opt_set orc (pc_nsdelim cfg) help_text oca None r = Ok (r1, None) ->
          res_eqv (step cfg orc root help_text s1 r) (two_steps cfg orc root help_text s2 r)).
Proof. exact @C02_cluster. Qed.
Print Assumptions C02_cluster_eq.

(* ---- added by bin/mkprops (batch 2) ---- *)
From GoFlags Require Import Base.Str Base.Utf8 Golib.Strings Golib.Strconv Model.Types Model.Tag Model.Scan Model.Lookup Model.Convert Model.State Model.Closest Model.Help Model.Parse Model.Ini Model.Complete.
From GoFlags Require Import Proofs.EquivSpec.

(* END TO END: two token lists that spell the same occurrences have the same outcome of the whole argument loop (same state, same error; only the last popped token and, after an error, the pending spellings of the same remaining occurrences differ) *)
Theorem C02_same_occurrences_same_outcome_loop :
  forall (cfg : pconfig) (orc : oracles) (root : command) (ht : rt -> str) (lk : lookup)
           (toks1 toks2 : list str) (occs : list DenoteSpec.occ),
         DenoteSpec.spells lk toks1 occs ->
         DenoteSpec.spells lk toks2 occs ->
         forall (fuel1 fuel2 : nat) (s1 s2 : pst) (r : rt),
         ps_lk s1 = lk ->
         ps_lk s2 = lk ->
         ps_ret s1 = ps_ret s2 ->
         ps_pos s1 = ps_pos s2 ->
         ps_err s1 = ps_err s2 ->
         ps_cmd s1 = ps_cmd s2 ->
         ps_args s1 = toks1 ->
         ps_args s2 = toks2 ->
         (Datatypes.length toks1 < fuel1)%nat ->
         (Datatypes.length toks2 < fuel2)%nat ->
         same_outcome cfg orc ht lk occs r s1 (run_loop cfg orc root ht fuel1 s1 r)
           (run_loop cfg orc root ht fuel2 s2 r).
Proof. exact @C02_same_occurrences_same_outcome. Qed.
Print Assumptions C02_same_occurrences_same_outcome_loop.

(* replacing one spelling of an occurrence by another inside any context never changes the outcome *)
Theorem C02_spelling_swap_in_context :
  forall (cfg : pconfig) (orc : oracles) (root : command) (ht : rt -> str) (lk : lookup)
           (pre post ts1 ts2 : list str) (o : DenoteSpec.occ) (occs_pre occs_post : list DenoteSpec.occ),
         DenoteSpec.spell1 lk ts1 o ->
         DenoteSpec.spell1 lk ts2 o ->
         DenoteSpec.spells lk pre occs_pre ->
         DenoteSpec.spells lk post occs_post ->
         forall (fuel1 fuel2 : nat) (s1 s2 : pst) (r : rt),
         ps_lk s1 = lk ->
         ps_lk s2 = lk ->
         ps_ret s1 = ps_ret s2 ->
         ps_pos s1 = ps_pos s2 ->
         ps_err s1 = ps_err s2 ->
         ps_cmd s1 = ps_cmd s2 ->
         ps_args s1 = pre ++ ts1 ++ post ->
         ps_args s2 = pre ++ ts2 ++ post ->
         (Datatypes.length (pre ++ ts1 ++ post) < fuel1)%nat ->
         (Datatypes.length (pre ++ ts2 ++ post) < fuel2)%nat ->
         same_outcome cfg orc ht lk (occs_pre ++ o :: occs_post) r s1 (run_loop cfg orc root ht fuel1 s1 r)
           (run_loop cfg orc root ht fuel2 s2 r).
Proof. exact @C02_spelling_swap. Qed.
Print Assumptions C02_spelling_swap_in_context.

(* a cluster -abc is interchangeable with -a -b -c (any runes; second rune not `=`) *)
Theorem C02_cluster_equals_separate_flags :
  forall (cfg : pconfig) (orc : oracles) (root : command) (ht : rt -> str) (lk : lookup) 
           (cs : list N) (ocs : list octx) (post : list str) (occs_post : list DenoteSpec.occ),
         cs <> [] ->
         nth 1 cs 0 <> 61 ->
         Forall2 (cluster_flag lk) cs ocs ->
         DenoteSpec.spells lk post occs_post ->
         forall (fuel1 fuel2 : nat) (s1 s2 : pst) (r : rt),
         ps_lk s1 = lk ->
         ps_lk s2 = lk ->
         ps_ret s1 = ps_ret s2 ->
         ps_pos s1 = ps_pos s2 ->
         ps_err s1 = ps_err s2 ->
         ps_cmd s1 = ps_cmd s2 ->
         ps_args s1 = cluster_tok cs :: post ->
         ps_args s2 = sep_toks cs ++ post ->
         (Datatypes.length (cluster_tok cs :: post) < fuel1)%nat ->
         (Datatypes.length (sep_toks cs ++ post) < fuel2)%nat ->
         cluster_outcome cfg orc ht lk cs ocs post occs_post r s1 s2 (run_loop cfg orc root ht fuel1 s1 r)
           (run_loop cfg orc root ht fuel2 s2 r).
Proof. exact @C02_cluster_as_flags. Qed.
Print Assumptions C02_cluster_equals_separate_flags.

Theorem C02_cluster_equals_separate_flags_in_context :
  forall (cfg : pconfig) (orc : oracles) (root : command) (ht : rt -> str) (lk : lookup)
           (pre : list str) (occs_pre : list DenoteSpec.occ) (cs : list N) (ocs : list octx) 
           (post : list str) (occs_post : list DenoteSpec.occ),
         cs <> [] ->
         nth 1 cs 0 <> 61 ->
         Forall2 (cluster_flag lk) cs ocs ->
         DenoteSpec.spells lk pre occs_pre ->
         DenoteSpec.spells lk post occs_post ->
         forall (fuel1 fuel2 : nat) (s1 s2 : pst) (r rm : rt),
         ps_lk s1 = lk ->
         ps_lk s2 = lk ->
         ps_ret s1 = ps_ret s2 ->
         ps_pos s1 = ps_pos s2 ->
         ps_err s1 = ps_err s2 ->
         ps_cmd s1 = ps_cmd s2 ->
         ps_args s1 = pre ++ cluster_tok cs :: post ->
         ps_args s2 = pre ++ sep_toks cs ++ post ->
         (Datatypes.length (pre ++ cluster_tok cs :: post) < fuel1)%nat ->
         (Datatypes.length (pre ++ sep_toks cs ++ post) < fuel2)%nat ->
         DenoteSpec.denote orc (pc_nsdelim cfg) ht occs_pre r = Ok (rm, None) ->
         cluster_outcome cfg orc ht lk cs ocs post occs_post rm s1 s2 (run_loop cfg orc root ht fuel1 s1 r)
           (run_loop cfg orc root ht fuel2 s2 r).
Proof. exact @C02_cluster_in_context. Qed.
Print Assumptions C02_cluster_equals_separate_flags_in_context.

Theorem C02_first_failing_occurrence_unique :
  forall (orc : oracles) (delim : str) (ht : rt -> str) (pre1 : list (octx * option str)) 
           (oc1 : octx) (a1 : option str) (post1 pre2 : list (octx * option str)) (oc2 : octx)
           (a2 : option str) (post2 : list (octx * option str)) (r r1 r2 r1' r2' : rt) 
           (e1 e2 : err),
         pre1 ++ (oc1, a1) :: post1 = pre2 ++ (oc2, a2) :: post2 ->
         DenoteSpec.denote orc delim ht pre1 r = Ok (r1, None) ->
         opt_set orc delim ht oc1 a1 r1 = Ok (r1', Some e1) ->
         DenoteSpec.denote orc delim ht pre2 r = Ok (r2, None) ->
         opt_set orc delim ht oc2 a2 r2 = Ok (r2', Some e2) ->
         pre1 = pre2 /\ oc1 = oc2 /\ a1 = a2 /\ post1 = post2 /\ r1 = r2 /\ r1' = r2' /\ e1 = e2.
Proof. exact @denote_first_error_unique. Qed.
Print Assumptions C02_first_failing_occurrence_unique.

