(* C02 - All documented spellings of an option occurrence are interchangeable.
   (quoted-literal part; the spelling-equivalence theorems are added below as they
   are proved) *)
From GoFlags Require Import Base.Str Golib.Strconv Proofs.QuoteSpec.
Open Scope N_scope.

(* a value written as a double-quoted Go string literal denotes exactly that value,
   for every byte string (valid UTF-8 or not) *)
Theorem C02_quoted_value_roundtrip : forall s, bytes_ok s -> unquote (quote s) = Some s.
Proof. exact quote_unquote. Qed.
Print Assumptions C02_quoted_value_roundtrip.

Theorem C02_quoted_literal_starts_with_quote : forall s, exists body, quote s = 34 :: body.
Proof. exact quote_starts_with_dq. Qed.
Print Assumptions C02_quoted_literal_starts_with_quote.

(* ---- added by bin/mkprops ---- *)
From GoFlags Require Import Base.Str Base.Utf8 Golib.Strings Golib.Strconv Model.Types Model.Tag Model.Scan Model.Lookup Model.Convert Model.State Model.Closest Model.Help Model.Parse Model.Ini Model.Complete.
From GoFlags Require Import Proofs.SpellSpec.

(* --name=V and --name V are interchangeable (up to the last-popped token) *)
Theorem C02_long_equals_vs_separate :
  forall (cfg : pconfig) (orc : oracles) (root : command) (help_text : rt -> str) 
           (s1 s2 : pst) (r : rt) (n V : str) (rest : list str) (oc : octx),
         ps_sim s1 s2 ->
         n <> [] ->
         hd 0 n <> 45 ->
         ~ In 61 n ->
         find_last (lk_long (ps_lk s1)) n = Some oc ->
         can_argument (oc_opt oc) = true ->
         o_optional (oc_opt oc) = false ->
         is_valid_value (oc_opt oc) V = true ->
         ~ (po_passdd (pc_opts cfg) = true /\ V = s2l "--") ->
         ps_args s1 = (s2l "--" ++ n ++ [61] ++ V) :: rest ->
         ps_args s2 = (s2l "--" ++ n) :: V :: rest ->
         res_eqv (step cfg orc root help_text s1 r) (step cfg orc root help_text s2 r).
Proof. exact @C02_long_eq_vs_separate. Qed.
Print Assumptions C02_long_equals_vs_separate.

(* -xV, -x=V and -x V are interchangeable for every valid rune x *)
Theorem C02_short_spellings :
  forall (cfg : pconfig) (orc : oracles) (root : command) (help_text : rt -> str) 
           (s1 s2 s3 : pst) (r : rt) (c : N) (V : str) (rest : list str) (oc : octx),
         ps_sim s1 s2 ->
         ps_sim s1 s3 ->
         valid_rune c = true ->
         c <> 45 ->
         c <> 61 ->
         find_last (lk_short (ps_lk s1)) (encode_rune c) = Some oc ->
         can_argument (oc_opt oc) = true ->
         o_optional (oc_opt oc) = false ->
         V <> [] ->
         hd 0 V <> 61 ->
         is_valid_value (oc_opt oc) V = true ->
         ~ (po_passdd (pc_opts cfg) = true /\ V = s2l "--") ->
         ps_args s1 = (45 :: encode_rune c ++ V) :: rest ->
         ps_args s2 = (45 :: encode_rune c ++ 61 :: V) :: rest ->
         ps_args s3 = (45 :: encode_rune c) :: V :: rest ->
         res_eqv (step cfg orc root help_text s1 r) (step cfg orc root help_text s2 r) /\
         res_eqv (step cfg orc root help_text s1 r) (step cfg orc root help_text s3 r).
Proof. exact @C02_short_forms. Qed.
Print Assumptions C02_short_spellings.

Theorem C02_short_dispatch_eq :
  forall (cfg : pconfig) (orc : oracles) (help_text : rt -> str) (s : pst) (r : rt) 
           (c : N) (V : str) (oc : octx),
         valid_rune c = true ->
         find_last (lk_short (ps_lk s)) (encode_rune c) = Some oc ->
         parse_short cfg orc help_text (encode_rune c) (Some V) s r =
         parse_option cfg orc help_text oc (negb (o_optional (oc_opt oc))) (Some V) s r /\
         (V <> [] ->
          can_argument (oc_opt oc) = true ->
          parse_short cfg orc help_text (encode_rune c ++ V) None s r =
          parse_option cfg orc help_text oc (negb (o_optional (oc_opt oc))) (Some V) s r) /\
         parse_short cfg orc help_text (encode_rune c) None s r =
         parse_option cfg orc help_text oc (negb (o_optional (oc_opt oc))) None s r.
Proof. exact @C02_short_dispatch. Qed.
Print Assumptions C02_short_dispatch_eq.

(* a cluster -ab of flags is interchangeable with -a -b *)
Theorem C02_cluster_eq :
  forall (cfg : pconfig) (orc : oracles) (root : command) (help_text : rt -> str) 
           (s1 s2 : pst) (r : rt) (a b : N) (rest : list str) (oca ocb : octx),
         ps_sim s1 s2 ->
         a < 128 ->
         b < 128 ->
         a <> 45 ->
         b <> 45 ->
         b <> 61 ->
         find_last (lk_short (ps_lk s1)) (encode_rune a) = Some oca ->
         find_last (lk_short (ps_lk s1)) (encode_rune b) = Some ocb ->
         can_argument (oc_opt oca) = false ->
         can_argument (oc_opt ocb) = false ->
         ps_args s1 = [45; a; b] :: rest ->
         ps_args s2 = [45; a] :: [45; b] :: rest ->
         cluster_rel [45; b] (step cfg orc root help_text s1 r) (two_steps cfg orc root help_text s2 r) /\
         (forall r1 : rt,
          opt_set orc (pc_nsdelim cfg) help_text oca None r = Ok (r1, None) ->
          res_eqv (step cfg orc root help_text s1 r) (two_steps cfg orc root help_text s2 r)).
Proof. exact @C02_cluster. Qed.
Print Assumptions C02_cluster_eq.

