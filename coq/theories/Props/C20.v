(* C20 - Unknown-command diagnostics name the truly nearest command.
   Only statements, each closed by [exact], with Print Assumptions. *)
From GoFlags Require Import Base.Str Base.Utf8 Model.Closest Proofs.LevSpec.
Open Scope nat_scope.

(* the distance go-flags computes is the textbook Levenshtein distance over the
   characters (runes) of the two strings, for all byte strings *)
Theorem C20_distance : forall s t : str, lev_go s t = lev_spec (runes s) (runes t).
Proof. intros s t. exact (lev_runes_spec (runes s) (runes t)). Qed.
Print Assumptions C20_distance.

(* the specification really is a metric on character sequences (sanity of the spec) *)
Theorem C20_spec_symmetric : forall s t, levr s t = levr t s.
Proof. exact levr_sym. Qed.
Print Assumptions C20_spec_symmetric.

Theorem C20_spec_zero_iff_equal : forall s t, levr s t = 0 <-> s = t.
Proof. exact levr_zero_iff. Qed.
Print Assumptions C20_spec_zero_iff_equal.

Theorem C20_spec_triangle : forall s t u, levr s u <= levr s t + levr t u.
Proof. exact levr_triangle. Qed.
Print Assumptions C20_spec_triangle.

(* record of the finding repaired by the fix: commit: the code as it was computed
   1 for ("x","abc") and 0 for ("é","e") *)
Theorem C20_distance_old_refuted :
  exists s t, lev_old s t <> lev_spec (runes s) (runes t).
Proof. exists (hx "78"), (hx "616263"). vm_compute. discriminate. Qed.
Print Assumptions C20_distance_old_refuted.

Theorem C20_distance_old_refuted_multibyte :
  lev_old (hx "c3a9") (hx "65") = 0 /\ lev_spec (runes (hx "c3a9")) (runes (hx "65")) = 1.
Proof. split; vm_compute; reflexivity. Qed.
Print Assumptions C20_distance_old_refuted_multibyte.

(* ---- added by bin/mkprops ---- *)
From GoFlags Require Import Base.Str Base.Utf8 Golib.Strings Golib.Strconv Model.Types Model.Tag Model.Scan Model.Lookup Model.Convert Model.State Model.Closest Model.Help Model.Parse Model.Ini Model.Complete.
From GoFlags Require Import Proofs.SpellSpec.

(* the suggested command has the minimum distance; ties go to the first in sorted order *)
Theorem C20_nearest_is_first_minimum :
  forall (w : str) (names : list str) (c : str) (l : nat),
         names <> [] ->
         closest_choice w names = (c, l) ->
         In c names /\
         l = lev_go w c /\
         (forall c' : str, In c' names -> (l <= lev_go w c')%nat) /\
         (exists pre post : list str,
            names = pre ++ c :: post /\ (forall p : str, In p pre -> (l < lev_go w p)%nat)).
Proof. exact @C20_closest_is_minimum. Qed.
Print Assumptions C20_nearest_is_first_minimum.

(* suggestion iff distance < half the name's length, otherwise the enumeration of exactly the sorted visible commands *)
Theorem C20_message :
  forall (root : command) (s : pst),
         let names := visible_sorted_names (cur_cmd root s) in
         match ps_ret s with
         | [] => estimate_command root s = EFlags ErrCommandRequired (required_text names)
         | w :: _ =>
             let c := fst (closest_choice w names) in
             let l0 := snd (closest_choice w names) in
             let base := s2l "Unknown command `" ++ w ++ s2l "'" in
             exists msg : str,
               estimate_command root s = EFlags ErrUnknownCommand msg /\
               ((2 * l0 < Datatypes.length c)%nat -> msg = base ++ suggestion_tail c) /\
               (~ (2 * l0 < Datatypes.length c)%nat ->
                msg = base ++ enumeration_tail names /\ (forall c' : str, msg <> base ++ suggestion_tail c')) /\
               (msg = base ++ suggestion_tail c <-> (2 * l0 < Datatypes.length c)%nat)
         end.
Proof. exact @C20_message_shape. Qed.
Print Assumptions C20_message.

Theorem C20_hidden_never_named :
  forall c : command,
         (forall n : str,
          In n (visible_sorted_names c) ->
          exists sc : command, In sc (cmd_subs c) /\ c_hidden (cmd_info sc) = false /\ c_name (cmd_info sc) = n) /\
         (forall sc : command,
          In sc (cmd_subs c) ->
          c_hidden (cmd_info sc) = false -> In (c_name (cmd_info sc)) (visible_sorted_names c)) /\
         Permutation.Permutation (visible_sorted_names c)
           (map (fun sc : command => c_name (cmd_info sc))
              (filter (fun sc : command => negb (c_hidden (cmd_info sc))) (cmd_subs c))) /\
         Sorted.StronglySorted (fun a b : str => str_ltb b a = false) (visible_sorted_names c).
Proof. exact @C20_hidden_never. Qed.
Print Assumptions C20_hidden_never_named.

