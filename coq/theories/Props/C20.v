(* C20 - Unknown-command diagnostics name the truly nearest command.
   Only statements, each closed by [exact], with Print Assumptions. *)
From GoFlags Require Import Base.Str Base.Utf8 Model.Closest Proofs.LevSpec.
Open Scope nat_scope.

(* the distance go-flags computes is the textbook Levenshtein distance over the
   characters (runes) of the two strings, for all byte strings *)
Theorem C20_distance : forall s t : str, lev_go s t = lev_spec (runes s) (runes t).
Proof. intros s t. exact (lev_runes_spec (runes s) (runes t)). Qed.
Print Assumptions C20_distance.

(* the specification really is a metric on character sequences (sanity of the spec) *)
Theorem C20_spec_symmetric : forall s t, levr s t = levr t s.
Proof. exact levr_sym. Qed.
Print Assumptions C20_spec_symmetric.

Theorem C20_spec_zero_iff_equal : forall s t, levr s t = 0 <-> s = t.
Proof. exact levr_zero_iff. Qed.
Print Assumptions C20_spec_zero_iff_equal.

Theorem C20_spec_triangle : forall s t u, levr s u <= levr s t + levr t u.
Proof. exact levr_triangle. Qed.
Print Assumptions C20_spec_triangle.

(* record of the finding repaired by the fix: commit: the code as it was computed
   1 for ("x","abc") and 0 for ("é","e") *)
Theorem C20_distance_old_refuted :
  exists s t, lev_old s t <> lev_spec (runes s) (runes t).
Proof. exists (hx "78"), (hx "616263"). vm_compute. discriminate. Qed.
Print Assumptions C20_distance_old_refuted.

Theorem C20_distance_old_refuted_multibyte :
  lev_old (hx "c3a9") (hx "65") = 0 /\ lev_spec (runes (hx "c3a9")) (runes (hx "65")) = 1.
Proof. split; vm_compute; reflexivity. Qed.
Print Assumptions C20_distance_old_refuted_multibyte.
