(* C18 - Completion offers exactly the valid continuations.
   Statements only: each theorem re-states a lemma of Proofs.CompleteSpec verbatim and is closed by [exact]. *)
From GoFlags Require Import Base.Str Base.Utf8 Golib.Strings Golib.Strconv Model.Types Model.Tag Model.Scan Model.Lookup Model.Convert Model.State Model.Closest Model.Help Model.Parse Model.Ini Model.Complete.
From GoFlags Require Import Proofs.CompleteSpec.
Open Scope N_scope.

Theorem C18_list_sorted :
  forall (cfg : pconfig) (root : command) (args : list str),
         Sorted.StronglySorted (fun x y : str * str => str_ltb (fst y) (fst x) = false)
           (complete cfg root args) /\
         Sorted.Sorted (fun x y : str * str => str_ltb (fst y) (fst x) = false) (complete cfg root args).
Proof. exact @C18_sorted. Qed.
Print Assumptions C18_list_sorted.

(* a partial long name yields exactly the non-hidden options of the context with that prefix *)
Theorem C18_long_names_exact :
  forall (lk : lookup) (prefix m : str) (it : str * str),
         In it (complete_option_names lk prefix m false) <->
         (exists (n : list N) (oc : octx),
            it = (s2l "--" ++ n, o_desc (oc_opt oc)) /\
            find_last (lk_long lk) n = Some oc /\ has_prefix n m = true /\ o_hidden (oc_opt oc) = false).
Proof. exact @C18_option_names_exact. Qed.
Print Assumptions C18_long_names_exact.

Theorem C18_long_names_once :
  forall (lk : lookup) (prefix m : str), NoDup (map fst (complete_option_names lk prefix m false)).
Proof. exact @C18_option_names_nodup. Qed.
Print Assumptions C18_long_names_once.

Theorem C18_bare_dash :
  forall (lk : lookup) (prefix : str),
         (forall m : list N, m <> [] -> complete_option_names lk prefix m true = [(prefix ++ m, [])]) /\
         (exists shorts : list (str * str),
            complete_option_names lk prefix [] true = complete_option_names lk prefix [] false ++ shorts /\
            (forall it : str * str,
             In it shorts <->
             (exists (n : list N) (oc : octx),
                it = (45 :: n, o_desc (oc_opt oc)) /\
                find_last (lk_short lk) n = Some oc /\
                o_hidden (oc_opt oc) = false /\
                ~
                (exists (n' : str) (oc' : octx),
                   find_last (lk_long lk) n' = Some oc' /\
                   o_hidden (oc_opt oc') = false /\ n = encode_rune (o_short (oc_opt oc')))))).
Proof. exact @C18_short_names. Qed.
Print Assumptions C18_bare_dash.

Theorem C18_commands :
  forall (c : command) (m : str) (it : str * str),
         In it (complete_commands c m) <->
         (exists sc : command,
            In sc (cmd_subs c) /\
            g_hidden (grp_info (cmd_group sc)) = false /\
            has_prefix (c_name (cmd_info sc)) m = true /\
            it = (c_name (cmd_info sc), g_short (grp_info (cmd_group sc)))).
Proof. exact @C18_commands_exact. Qed.
Print Assumptions C18_commands.

Theorem C18_values_of_completer :
  forall (t : vtype) (prefix m : str),
         (vtype_completes t = true ->
          complete_value t prefix m = map (fun it : str * str => (prefix ++ fst it, snd it)) (comp_complete m)) /\
         (vtype_completes t = false -> complete_value t prefix m = []) /\
         (forall it : str * str,
          In it (comp_complete m) <->
          In (fst it) comp_words /\ has_prefix (fst it) m = true /\ snd it = s2l "desc " ++ fst it).
Proof. exact @C18_values. Qed.
Print Assumptions C18_values_of_completer.

(* every offered long option is recognised by the parser's lookup in the same context *)
Theorem C18_offered_is_accepted :
  forall (cfg : pconfig) (orc : oracles) (help_text : rt -> str) (lk : lookup) 
           (prefix m : str) (n : list N) (d : str) (argument : option str) (s : pst) 
           (r : rt),
         ps_lk s = lk ->
         In (s2l "--" ++ n, d) (complete_option_names lk prefix m false) ->
         exists oc : octx,
           find_last (lk_long lk) n = Some oc /\
           d = o_desc (oc_opt oc) /\
           has_prefix n m = true /\
           o_hidden (oc_opt oc) = false /\
           parse_long cfg orc help_text n argument s r =
           parse_option cfg orc help_text oc (negb (o_optional (oc_opt oc))) argument s r.
Proof. exact @C18_offered_long_parse_long. Qed.
Print Assumptions C18_offered_is_accepted.

Theorem C18_offered_dash_accepted :
  forall (lk : lookup) (prefix : str) (it : str * str),
         In it (complete_option_names lk prefix [] true) ->
         (exists n : list N, fst it = s2l "--" ++ n /\ find_last (lk_long lk) n <> None) \/
         (exists n : list N, fst it = 45 :: n /\ find_last (lk_short lk) n <> None).
Proof. exact @C18_offered_dash_is_accepted. Qed.
Print Assumptions C18_offered_dash_accepted.

(* ---- added by bin/mkprops (batch 2) ---- *)
From GoFlags Require Import Base.Str Base.Utf8 Golib.Strings Golib.Strconv Model.Types Model.Tag Model.Scan Model.Lookup Model.Convert Model.State Model.Closest Model.Help Model.Parse Model.Ini Model.Complete.
From GoFlags Require Import Proofs.ContextSpec Proofs.CompleteSafe.

(* after a valid prefix of command words the completion walk and the parser are in the same context: same command path, same lookup tables, same pending positionals *)
Theorem C18_same_context_after_command_words :
  forall (cfg : pconfig) (orc : oracles) (root : command) (help_text : rt -> str) 
           (ws : list str) (idx : list nat) (lastw : str) (r : rt) (fc fp : nat),
         cmd_words cfg root [] ws idx ->
         (Datatypes.length ws <= fc)%nat ->
         (Datatypes.length ws < fp)%nat ->
         exists (sp : pst) (r' : rt),
           comp_walk cfg root fc (ws ++ [lastw]) (cs_fill cfg root [] false) None =
           (cs_fill cfg root idx false, None, [lastw], false) /\
           run_loop cfg orc root help_text fp (initial_pst cfg root ws) r = Ok (sp, r') /\
           ps_cmd sp = idx /\
           ps_lk sp = make_lookup (pc_nsdelim cfg) root idx /\
           ps_pos sp = pos_at root idx /\
           ps_ret sp = [] /\
           ps_err sp = None /\
           ps_args sp = [] /\
           rt_vals r' = rt_vals r /\
           rt_fl r' = rt_fl r /\
           rt_logs r' = rt_logs r /\
           rt_active r' = rev (entries [] idx) ++ rt_active r /\
           cs_cmd (cs_fill cfg root idx false) = ps_cmd sp /\
           cs_lk (cs_fill cfg root idx false) = ps_lk sp /\ cs_pos (cs_fill cfg root idx false) = ps_pos sp.
Proof. exact @C18_context_commands_only. Qed.
Print Assumptions C18_same_context_after_command_words.

(* the same when accepted --flag and --name=V tokens are interleaved with the command words *)
Theorem C18_same_context_after_words_and_flags :
  forall (cfg : pconfig) (orc : oracles) (root : command) (help_text : rt -> str) 
           (ws : list str) (path' : list nat) (lastw : str) (r r' : rt) (fc fp : nat),
         ctx_run cfg orc root help_text [] r ws path' r' ->
         (Datatypes.length ws <= fc)%nat ->
         (Datatypes.length ws < fp)%nat ->
         exists sp : pst,
           comp_walk cfg root fc (ws ++ [lastw]) (cs_fill cfg root [] false) None =
           (cs_fill cfg root path' false, None, [lastw], false) /\
           run_loop cfg orc root help_text fp (initial_pst cfg root ws) r = Ok (sp, r') /\
           ps_cmd sp = path' /\
           ps_lk sp = make_lookup (pc_nsdelim cfg) root path' /\
           ps_pos sp = pos_at root path' /\
           ps_ret sp = [] /\
           ps_err sp = None /\
           ps_args sp = [] /\
           cs_cmd (cs_fill cfg root path' false) = ps_cmd sp /\
           cs_lk (cs_fill cfg root path' false) = ps_lk sp /\ cs_pos (cs_fill cfg root path' false) = ps_pos sp.
Proof. exact @C18_context_with_flags. Qed.
Print Assumptions C18_same_context_after_words_and_flags.

Theorem C18_same_context_real_fuel :
  forall (cfg : pconfig) (orc : oracles) (root : command) (help_text : rt -> str) 
           (ws : list str) (path' : list nat) (lastw : str) (r r' : rt),
         ctx_run cfg orc root help_text [] r ws path' r' ->
         exists sp : pst,
           comp_walk cfg root (S (Datatypes.length (ws ++ [lastw]))) (ws ++ [lastw])
             (cs_fill cfg root [] false) None = (cs_fill cfg root path' false, None, [lastw], false) /\
           run_loop cfg orc root help_text (S (Datatypes.length ws)) (initial_pst cfg root ws) r = Ok (sp, r') /\
           cs_cmd (cs_fill cfg root path' false) = ps_cmd sp /\
           cs_lk (cs_fill cfg root path' false) = ps_lk sp /\
           cs_pos (cs_fill cfg root path' false) = ps_pos sp /\ ps_ret sp = [] /\ ps_err sp = None.
Proof. exact @C18_context_with_flags_api_fuel. Qed.
Print Assumptions C18_same_context_real_fuel.

Theorem C18_accepted_option_tokens_keep_context :
  forall (cfg : pconfig) (orc : oracles) (root : command) (help_text : rt -> str) 
           (sc : cst) (opt : option octx) (sp : pst) (r r1 : rt) (tok b : str) (rest : list str) 
           (n : str) (oc : octx) (f : nat),
         ps_lk sp = cs_lk sc ->
         ps_args sp = tok :: b :: rest ->
         argument_is_option tok = true ->
         ~ In 61 n ->
         find_last (lk_long (cs_lk sc)) n = Some oc ->
         tok = s2l "--" ++ n /\
         can_argument (oc_opt oc) = false /\ opt_set orc (pc_nsdelim cfg) help_text oc None r = Ok (r1, None) \/
         (exists (V : list N) (v' : str),
            tok = s2l "--" ++ n ++ [61] ++ V /\
            can_argument (oc_opt oc) = true /\
            arg_text (oc_opt oc) V = Some v' /\
            opt_set orc (pc_nsdelim cfg) help_text oc (Some v') r = Ok (r1, None)) ->
         comp_walk cfg root (S f) (tok :: b :: rest) sc opt = comp_walk cfg root f (b :: rest) sc opt /\
         (exists sp' : pst,
            step cfg orc root help_text sp r = Ok (Continue sp' r1) /\
            ps_args sp' = b :: rest /\
            ps_cmd sp' = ps_cmd sp /\
            ps_lk sp' = ps_lk sp /\ ps_pos sp' = ps_pos sp /\ ps_ret sp' = ps_ret sp /\ ps_err sp' = ps_err sp).
Proof. exact @C18_option_tokens_keep_context. Qed.
Print Assumptions C18_accepted_option_tokens_keep_context.

(* `--name V`: the walk pops V exactly when the parser consumes it, and a trailing V is the value being completed *)
Theorem C18_separate_argument_is_skipped :
  forall (cfg : pconfig) (orc : oracles) (root : command) (help_text : rt -> str) 
           (f : nat) (n v : str) (sc : cst) (opt : option octx) (oc : octx),
         argument_is_option (s2l "--" ++ n) = true ->
         ~ In 61 n ->
         find_last (lk_long (cs_lk sc)) n = Some oc ->
         can_argument (oc_opt oc) = true ->
         o_optional (oc_opt oc) = false ->
         (forall (x : str) (rest' : list str),
          comp_walk cfg root (S f) ((s2l "--" ++ n) :: v :: x :: rest') sc opt =
          comp_walk cfg root f (x :: rest') sc opt) /\
         comp_walk cfg root (S f) [s2l "--" ++ n; v] sc opt = (sc, Some oc, [v], false) /\
         (forall (sp : pst) (r r1 : rt) (rest' : list str) (v' : str),
          ps_lk sp = cs_lk sc ->
          ps_args sp = (s2l "--" ++ n) :: v :: rest' ->
          is_valid_value (oc_opt oc) v = true ->
          po_passdd (pc_opts cfg) && str_eqb v (s2l "--") = false ->
          arg_text (oc_opt oc) v = Some v' ->
          opt_set orc (pc_nsdelim cfg) help_text oc (Some v') r = Ok (r1, None) ->
          exists sp' : pst,
            step cfg orc root help_text sp r = Ok (Continue sp' r1) /\
            ps_args sp' = rest' /\
            ps_arg sp' = v /\
            ps_cmd sp' = ps_cmd sp /\
            ps_lk sp' = ps_lk sp /\ ps_pos sp' = ps_pos sp /\ ps_ret sp' = ps_ret sp /\ ps_err sp' = ps_err sp).
Proof. exact @C18_separate_argument_skipped. Qed.
Print Assumptions C18_separate_argument_is_skipped.

Theorem C18_complete_in_terms_of_the_walk :
  forall (cfg : pconfig) (root : command) (args : list str) (s : cst) (opt : option octx)
           (rest : list str) (terminated : bool),
         walk_of cfg root args = (s, opt, rest, terminated) ->
         complete cfg root args =
         sort_by (fun it : str * str => fst it)
           (complete_ret s opt terminated (last rest [])
              (if negb terminated && negb (cs_ret s) then command_items root s (last rest []) else [])).
Proof. exact @complete_by_walk. Qed.
Print Assumptions C18_complete_in_terms_of_the_walk.

(* after `--` (PassDoubleDash) or the first non-option word under PassAfterNonOption nothing but the completions of a pending positional is offered: no option names, no commands *)
Theorem C18_only_positional_values_after_terminator :
  forall (cfg : pconfig) (root : command) (args : list str) (s : cst) (opt : option octx)
           (rest : list str),
         walk_of cfg root args = (s, opt, rest, true) ->
         opt = None /\
         complete cfg root args =
         sort_by (fun it : str * str => fst it)
           match cs_pos s with
           | [] => []
           | p :: _ => complete_value (a_ty p) [] (last rest [])
           end.
Proof. exact @C18_nothing_but_values_after_terminator. Qed.
Print Assumptions C18_only_positional_values_after_terminator.

Theorem C18_terminated_by_double_dash_prefix :
  forall (cfg : pconfig) (orc : oracles) (root : command) (help_text : rt -> str) 
           (ws : list str) (path' : list nat) (ret' : bool) (r r' : rt) (more : list str) 
           (lastw : str),
         po_passdd (pc_opts cfg) = true ->
         ctx_run_ret cfg orc root help_text [] false r ws path' ret' r' ->
         walk_of cfg root (ws ++ s2l "--" :: more ++ [lastw]) =
         (cs_with_pos (cs_fill cfg root path' ret') (skipn (Datatypes.length more) (pos_at root path')), None,
          more ++ [lastw], true).
Proof. exact @C18_terminated_by_double_dash. Qed.
Print Assumptions C18_terminated_by_double_dash_prefix.

Theorem C18_terminated_by_non_option_prefix :
  forall (cfg : pconfig) (orc : oracles) (root : command) (help_text : rt -> str) 
           (ws : list str) (path' : list nat) (ret' : bool) (r r' : rt) (a : str) (more : list str)
           (lastw : str),
         po_passafter (pc_opts cfg) = true ->
         ctx_run_ret cfg orc root help_text [] false r ws path' ret' r' ->
         po_passdd (pc_opts cfg) && str_eqb a (s2l "--") = false ->
         argument_is_option a = false ->
         find_last (lk_cmds (make_lookup (pc_nsdelim cfg) root path')) a = None ->
         walk_of cfg root (ws ++ a :: more ++ [lastw]) =
         (cs_with_pos (cs_fill cfg root path' ret')
            (skipn (Datatypes.length (more ++ [lastw])) (pos_at root path')), None, 
          more ++ [lastw], true).
Proof. exact @C18_terminated_by_non_option. Qed.
Print Assumptions C18_terminated_by_non_option_prefix.

(* after a left over argument (stray word, ignored unknown option) no command is offered *)
Theorem C18_no_commands_after_leftover_argument :
  forall (cfg : pconfig) (root : command) (args : list str) (s : cst) (opt : option octx)
           (rest : list str) (terminated : bool),
         walk_of cfg root args = (s, opt, rest, terminated) ->
         cs_ret s = true ->
         complete cfg root args =
         sort_by (fun it : str * str => fst it) (complete_ret s opt terminated (last rest []) []) /\
         (opt = None -> starts_option (last rest []) = false -> cs_pos s = [] -> complete cfg root args = []).
Proof. exact @C18_no_commands_after_leftover. Qed.
Print Assumptions C18_no_commands_after_leftover_argument.

Theorem C18_long_names_offered_iff_live :
  forall (cfg : pconfig) (root : command) (args : list str) (s : cst) (rest : list str)
           (terminated : bool) (prefix m : str),
         walk_of cfg root args = (s, None, rest, terminated) ->
         starts_option (last rest []) = true ->
         strip_split (last rest []) = (prefix, true, m, None) ->
         complete cfg root args =
         sort_by (fun it : str * str => fst it)
           (if terminated
            then match cs_pos s with
                 | [] => []
                 | p :: _ => complete_value (a_ty p) [] (last rest [])
                 end
            else complete_option_names (cs_lk s) prefix m false).
Proof. exact @C18_complete_long_names. Qed.
Print Assumptions C18_long_names_offered_iff_live.

Theorem C18_commands_offered_iff_live :
  forall (cfg : pconfig) (root : command) (args : list str) (s : cst) (rest : list str)
           (terminated : bool) (c : command),
         walk_of cfg root args = (s, None, rest, terminated) ->
         starts_option (last rest []) = false ->
         cs_pos s = [] ->
         cmd_at root (cs_cmd s) = Some c ->
         complete cfg root args =
         sort_by (fun it : str * str => fst it)
           (if negb terminated && negb (cs_ret s) then complete_commands c (last rest []) else []).
Proof. exact @C18_complete_commands. Qed.
Print Assumptions C18_commands_offered_iff_live.

(* the completion walk and the argument loop reach the same context and agree on whether an argument was left over, for prefixes with command words, accepted options, stray words and ignored unknown options *)
Theorem C18_walk_and_parser_agree_with_leftovers :
  forall (cfg : pconfig) (orc : oracles) (root : command) (help_text : rt -> str) 
           (ws : list str) (path' : list nat) (ret' : bool) (lastw : str) (r r' : rt) 
           (fc fp : nat),
         ctx_run_ret cfg orc root help_text [] false r ws path' ret' r' ->
         (Datatypes.length ws <= fc)%nat ->
         (Datatypes.length ws < fp)%nat ->
         exists (sc : cst) (sp : pst),
           comp_walk cfg root fc (ws ++ [lastw]) (cs_fill cfg root [] false) None = (sc, None, [lastw], false) /\
           run_loop cfg orc root help_text fp (initial_pst cfg root ws) r = Ok (sp, r') /\
           cs_cmd sc = ps_cmd sp /\
           cs_lk sc = ps_lk sp /\
           cs_pos sc = ps_pos sp /\
           cs_ret sc = nonempty (map (fun _ : str => 0) (ps_ret sp)) /\
           sc = cs_fill cfg root path' ret' /\
           ps_cmd sp = path' /\
           ps_lk sp = make_lookup (pc_nsdelim cfg) root path' /\
           ps_pos sp = pos_at root path' /\ ps_err sp = None /\ ps_args sp = [].
Proof. exact @C18_walk_ret_agrees_with_parser. Qed.
Print Assumptions C18_walk_and_parser_agree_with_leftovers.

Theorem C18_walk_and_parser_agree_real_fuel :
  forall (cfg : pconfig) (orc : oracles) (root : command) (help_text : rt -> str) 
           (ws : list str) (path' : list nat) (ret' : bool) (lastw : str) (r r' : rt),
         ctx_run_ret cfg orc root help_text [] false r ws path' ret' r' ->
         exists sp : pst,
           walk_of cfg root (ws ++ [lastw]) = (cs_fill cfg root path' ret', None, [lastw], false) /\
           run_loop cfg orc root help_text (S (Datatypes.length ws)) (initial_pst cfg root ws) r = Ok (sp, r') /\
           ps_cmd sp = path' /\
           ps_lk sp = make_lookup (pc_nsdelim cfg) root path' /\
           ps_pos sp = pos_at root path' /\
           nonempty (map (fun _ : str => 0) (ps_ret sp)) = ret' /\ ps_err sp = None /\ ps_args sp = [].
Proof. exact @C18_walk_ret_agrees_with_parser_api. Qed.
Print Assumptions C18_walk_and_parser_agree_real_fuel.

(* every offered command name is a visible sub-command of the current command and the parser, given that word at that position, enters it *)
Theorem C18_offered_command_is_entered_by_the_parser :
  forall (cfg : pconfig) (orc : oracles) (root : command) (help_text : rt -> str) 
           (ws : list str) (path' : list nat) (lastw : str) (r r' : rt) (name desc : str),
         ctx_run_ret cfg orc root help_text [] false r ws path' false r' ->
         pos_at root path' = [] ->
         starts_option lastw = false ->
         In (name, desc) (complete cfg root (ws ++ [lastw])) ->
         exists (cur sub : command) (i : nat) (sub' : command),
           cmd_at root path' = Some cur /\
           In sub (cmd_subs cur) /\
           g_hidden (grp_info (cmd_group sub)) = false /\
           name = c_name (cmd_info sub) /\
           desc = g_short (grp_info (cmd_group sub)) /\
           has_prefix name lastw = true /\
           find_last (lk_cmds (make_lookup (pc_nsdelim cfg) root path')) name = Some i /\
           nth_error (cmd_subs cur) i = Some sub' /\
           (name = c_name (cmd_info sub') \/ In name (c_aliases (cmd_info sub'))) /\
           (starts_option name = false ->
            (forall (s : pst) (rr : rt) (rest : list str),
             ps_args s = name :: rest ->
             in_ctx_ret cfg root s path' false ->
             step cfg orc root help_text s rr =
             Ok
               (Continue (fill_parse_state cfg root (ps_with_args s name rest) (path' ++ [i]))
                  (set_active rr path' i))) /\
            (exists sp : pst,
               run_loop cfg orc root help_text (S (S (Datatypes.length ws)))
                 (initial_pst cfg root (ws ++ [name])) r = Ok (sp, set_active r' path' i) /\
               ps_cmd sp = path' ++ [i] /\
               ps_lk sp = make_lookup (pc_nsdelim cfg) root (path' ++ [i]) /\
               ps_ret sp = [] /\ ps_err sp = None /\ ps_args sp = [])).
Proof. exact @C18_offered_command_is_entered. Qed.
Print Assumptions C18_offered_command_is_entered_by_the_parser.

Theorem C18_offered_command_is_entered_nonempty_word :
  forall (cfg : pconfig) (orc : oracles) (root : command) (help_text : rt -> str) 
           (ws : list str) (path' : list nat) (lastw : str) (r r' : rt) (name desc : str),
         ctx_run_ret cfg orc root help_text [] false r ws path' false r' ->
         pos_at root path' = [] ->
         starts_option lastw = false ->
         lastw <> [] ->
         In (name, desc) (complete cfg root (ws ++ [lastw])) ->
         exists (i : nat) (sp : pst),
           find_last (lk_cmds (make_lookup (pc_nsdelim cfg) root path')) name = Some i /\
           run_loop cfg orc root help_text (S (S (Datatypes.length ws))) (initial_pst cfg root (ws ++ [name]))
             r = Ok (sp, set_active r' path' i) /\
           ps_cmd sp = path' ++ [i] /\ ps_ret sp = [] /\ ps_err sp = None /\ ps_args sp = [].
Proof. exact @C18_offered_command_is_entered_nonempty. Qed.
Print Assumptions C18_offered_command_is_entered_nonempty_word.

