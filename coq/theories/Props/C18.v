(* C18 - Completion offers exactly the valid continuations.
   Statements only: each theorem re-states a lemma of Proofs.CompleteSpec verbatim and is closed by [exact]. *)
From GoFlags Require Import Base.Str Base.Utf8 Golib.Strings Golib.Strconv Model.Types Model.Tag Model.Scan Model.Lookup Model.Convert Model.State Model.Closest Model.Help Model.Parse Model.Ini Model.Complete.
From GoFlags Require Import Proofs.CompleteSpec.
Open Scope N_scope.

Theorem C18_list_sorted :
  forall (cfg : pconfig) (root : command) (args : list str),
         Sorted.StronglySorted (fun x y : str * str => str_ltb (fst y) (fst x) = false)
           (complete cfg root args) /\
         Sorted.Sorted (fun x y : str * str => str_ltb (fst y) (fst x) = false) (complete cfg root args).
Proof. exact C18_sorted. Qed.
Print Assumptions C18_list_sorted.

(* a partial long name yields exactly the non-hidden options of the context with that prefix *)
Theorem C18_long_names_exact :
  forall (lk : lookup) (prefix m : str) (it : str * str),
         In it (complete_option_names lk prefix m false) <->
         (exists (n : list N) (oc : octx),
            it = (s2l "--" ++ n, o_desc (oc_opt oc)) /\
            find_last (lk_long lk) n = Some oc /\ has_prefix n m = true /\ o_hidden (oc_opt oc) = false).
Proof. exact C18_option_names_exact. Qed.
Print Assumptions C18_long_names_exact.

Theorem C18_long_names_once :
  forall (lk : lookup) (prefix m : str), NoDup (map fst (complete_option_names lk prefix m false)).
Proof. exact C18_option_names_nodup. Qed.
Print Assumptions C18_long_names_once.

Theorem C18_bare_dash :
  forall (lk : lookup) (prefix : str),
         (forall m : list N, m <> [] -> complete_option_names lk prefix m true = [(prefix ++ m, [])]) /\
         (exists shorts : list (str * str),
            complete_option_names lk prefix [] true = complete_option_names lk prefix [] false ++ shorts /\
            (forall it : str * str,
             In it shorts <->
             (exists (n : list N) (oc : octx),
                it = (45 :: n, o_desc (oc_opt oc)) /\
                find_last (lk_short lk) n = Some oc /\
                o_hidden (oc_opt oc) = false /\
                ~
                (exists (n' : str) (oc' : octx),
                   find_last (lk_long lk) n' = Some oc' /\
                   o_hidden (oc_opt oc') = false /\ n = encode_rune (o_short (oc_opt oc')))))).
Proof. exact C18_short_names. Qed.
Print Assumptions C18_bare_dash.

Theorem C18_commands :
  forall (c : command) (m : str) (it : str * str),
         In it (complete_commands c m) <->
         (exists sc : command,
            In sc (cmd_subs c) /\
            g_hidden (grp_info (cmd_group sc)) = false /\
            has_prefix (c_name (cmd_info sc)) m = true /\
            it = (c_name (cmd_info sc), g_short (grp_info (cmd_group sc)))).
Proof. exact C18_commands_exact. Qed.
Print Assumptions C18_commands.

Theorem C18_values_of_completer :
  forall (t : vtype) (prefix m : str),
         (vtype_completes t = true ->
          complete_value t prefix m = map (fun it : str * str => (prefix ++ fst it, snd it)) (comp_complete m)) /\
         (vtype_completes t = false -> complete_value t prefix m = []) /\
         (forall it : str * str,
          In it (comp_complete m) <->
          In (fst it) comp_words /\ has_prefix (fst it) m = true /\ snd it = s2l "desc " ++ fst it).
Proof. exact C18_values. Qed.
Print Assumptions C18_values_of_completer.

(* every offered long option is recognised by the parser's lookup in the same context *)
Theorem C18_offered_is_accepted :
  forall (cfg : pconfig) (orc : oracles) (help_text : rt -> str) (lk : lookup) 
           (prefix m : str) (n : list N) (d : str) (argument : option str) (s : pst) 
           (r : rt),
         ps_lk s = lk ->
         In (s2l "--" ++ n, d) (complete_option_names lk prefix m false) ->
         exists oc : octx,
           find_last (lk_long lk) n = Some oc /\
           d = o_desc (oc_opt oc) /\
           has_prefix n m = true /\
           o_hidden (oc_opt oc) = false /\
           parse_long cfg orc help_text n argument s r =
           parse_option cfg orc help_text oc (negb (o_optional (oc_opt oc))) argument s r.
Proof. exact C18_offered_long_parse_long. Qed.
Print Assumptions C18_offered_is_accepted.

Theorem C18_offered_dash_accepted :
  forall (lk : lookup) (prefix : str) (it : str * str),
         In it (complete_option_names lk prefix [] true) ->
         (exists n : list N, fst it = s2l "--" ++ n /\ find_last (lk_long lk) n <> None) \/
         (exists n : list N, fst it = 45 :: n /\ find_last (lk_short lk) n <> None).
Proof. exact C18_offered_dash_is_accepted. Qed.
Print Assumptions C18_offered_dash_accepted.

