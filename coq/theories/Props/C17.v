(* C17 - Help layout is well-formed for every declaration and width.
   Statements only: each theorem re-states a lemma of Proofs.WrapSpec verbatim and is closed by [exact]. *)
From GoFlags Require Import Base.Str Base.Utf8 Golib.Strings Golib.Strconv Model.Types Model.Tag Model.Scan Model.Lookup Model.Convert Model.State Model.Closest Model.Help Model.Parse Model.Ini Model.Complete.
From GoFlags Require Import Proofs.WrapSpec.
Open Scope N_scope.

(* the wrapping loop always terminates within its fuel (width >= 2; wrapText enforces >= 10) *)
Theorem C17_wrap_terminates :
  forall (l : nat) (prefix : str),
         (2 <= l)%nat ->
         forall (fuel : nat) (line : list N) (acc : str),
         (Datatypes.length line < fuel)%nat ->
         wrap_line_opt fuel line l prefix acc = Some (wrap_line_fuel fuel line l prefix acc).
Proof. exact @C17_wrap_fuel_never_exhausted. Qed.
Print Assumptions C17_wrap_terminates.

Theorem C17_wrap_fuel_irrelevant :
  forall (line : list N) (l : nat) (prefix acc : str) (k : nat),
         (2 <= l)%nat ->
         wrap_line_fuel (S (Datatypes.length line) + k) line l prefix acc =
         wrap_line_fuel (S (Datatypes.length line)) line l prefix acc.
Proof. exact @C17_wrap_fuel. Qed.
Print Assumptions C17_wrap_fuel_irrelevant.

(* every line of a wrapped description has at most max(width,10) characters (a hard-broken piece: body plus hyphen) *)
Theorem C17_line_width :
  forall (s : str) (l : Z) (prefix : str),
         let l' := if (l <? 10)%Z then 10%nat else Z.to_nat l in
         wrap_text s l prefix = wrap_lines (split s [10]) l' prefix [] /\
         (10 <= l')%nat /\
         (forall line : str,
          In line (split s [10]) ->
          exists pieces : list str,
            wrap_line line l' prefix = join pieces ([10] ++ prefix) /\
            Forall (fun p : list N => p <> []) pieces /\ Forall (piece_ok l') pieces).
Proof. exact @C17_wrap_width_text. Qed.
Print Assumptions C17_line_width.

Theorem C17_line_width_pieces :
  forall (line : str) (l : nat) (prefix : str),
         (2 <= l)%nat ->
         exists pieces : list str,
           pieces = wrap_pieces (S (Datatypes.length (trim_space line))) (trim_space line) l /\
           wrap_line line l prefix = join pieces ([10] ++ prefix) /\
           Forall (fun p : list N => p <> []) pieces /\ Forall (piece_ok l) pieces.
Proof. exact @C17_wrap_width. Qed.
Print Assumptions C17_line_width_pieces.

(* the wrapped text contains the original characters in the original order: nothing lost, duplicated, reordered or corrupted (white space and hyphens aside), for arbitrary byte strings *)
Theorem C17_words_preserved :
  forall (s : str) (l : Z) (prefix : str),
         all_spaces prefix -> strip_runes (wrap_text s l prefix) = strip_runes s.
Proof. exact @C17_wrap_preserves_runes. Qed.
Print Assumptions C17_words_preserved.

Theorem C17_words_preserved_ascii :
  forall (s : str) (l : Z) (prefix : str),
         ascii s -> all_spaces prefix -> strip (wrap_text s l prefix) = strip s.
Proof. exact @C17_wrap_preserves_characters. Qed.
Print Assumptions C17_words_preserved_ascii.

(* valid UTF-8 stays valid UTF-8 on both sides of every cut *)
Theorem C17_cuts_at_character_boundaries :
  forall (line : str) (l : nat),
         let pos := fst (wrap_cut line l) in
         (pos <= Datatypes.length line)%nat /\
         range_str line = range_str (firstn pos line) ++ map (shift pos) (range_str (skipn pos line)) /\
         runes line = runes (firstn pos line) ++ runes (skipn pos line) /\
         (valid_utf8 line = true -> valid_utf8 (firstn pos line) = true /\ valid_utf8 (skipn pos line) = true).
Proof. exact @C17_wrap_cut_utf8_safe. Qed.
Print Assumptions C17_cuts_at_character_boundaries.

Theorem C17_rune_offset_is_boundary :
  forall (line : str) (n : nat),
         let off := rune_offset line n in
         off = list_sum (map (fun x : nat * N * nat => snd x) (firstn n (range_str line))) /\
         (exists k : nat,
            (k <= rune_count line)%nat /\
            off = list_sum (map (fun x : nat * N * nat => snd x) (firstn k (range_str line)))) /\
         (off <= Datatypes.length line)%nat /\
         range_str (firstn off line) = firstn n (range_str line) /\
         map (shift off) (range_str (skipn off line)) = skipn n (range_str line) /\
         runes line = runes (firstn off line) ++ runes (skipn off line) /\
         rune_count (firstn off line) = Nat.min n (rune_count line) /\
         valid_utf8 line = valid_utf8 (firstn off line) && valid_utf8 (skipn off line) /\
         (valid_utf8 line = true -> valid_utf8 (firstn off line) = true /\ valid_utf8 (skipn off line) = true).
Proof. exact @C17_wrap_utf8_safe. Qed.
Print Assumptions C17_rune_offset_is_boundary.

(* an option row whose name is dominated by the alignment record never makes strings.Repeat panic: the padding is strictly positive *)
Theorem C17_no_negative_padding :
  forall (cfg : pconfig) (r : rt) (o : opt) (ns envns : list str) (g : group) (a : align),
         valid_utf8 (long_with_ns (pc_nsdelim cfg) ns (o_long o)) = true ->
         (rune_count (long_with_ns (pc_nsdelim cfg) ns (o_long o) ++ o_valname o ++ choices_text o) +
          (if al_indent a then 4 else 0) <= al_maxlong a)%nat ->
         (o_short o <> 0 -> al_hasshort a = true) ->
         (rune_count (help_line2 cfg o ns a) < description_start a + 2)%nat /\
         (forall msg : str, help_option cfg r o ns envns g a <> Panic msg) /\
         (exists out : str, help_option cfg r o ns envns g a = Ok out) /\
         (exists rest : list N,
            help_option cfg r o ns envns g a =
            Ok
              (help_line2 cfg o ns a ++
               (if nonempty (o_desc o)
                then spaces (description_start a + 2 - rune_count (help_line2 cfg o ns a))
                else []) ++ rest)).
Proof. exact @C17_no_negative_padding_option. Qed.
Print Assumptions C17_no_negative_padding.

(* ---- added by bin/mkprops (batch 2) ---- *)
From GoFlags Require Import Base.Str Base.Utf8 Golib.Strings Golib.Strconv Model.Types Model.Tag Model.Scan Model.Lookup Model.Convert Model.State Model.Closest Model.Help Model.Parse Model.Ini Model.Complete.
From GoFlags Require Import Proofs.HelpSafe.

(* the alignment pass dominates every row it will print: name widths (with the 4-column indentation of non-root commands), short-name and value-name flags; it never touches the indentation flag *)
Theorem C17_alignment_dominates_every_row :
  forall (cfg : pconfig) (chain : list (list nat * command)) (a0 a : align),
         a =
         fold_left
           (fun (a1 : align) (pc : list nat * command) => align_cmd cfg a1 (snd pc) (is_root_path (fst pc)))
           chain a0 ->
         ((al_maxlong a0 <= al_maxlong a)%nat /\
          (al_hasshort a0 = true -> al_hasshort a = true) /\
          (al_hasvalname a0 = true -> al_hasvalname a = true) /\ al_indent a = al_indent a0) /\
         (forall (p : list nat) (c : command),
          In (p, c) chain ->
          (forall (g : group) (ns envns : list str) (o : opt),
           In (g, ns, envns) (cmd_group_ctxs c) ->
           group_show_in_help g = true ->
           In o (grp_opts g) ->
           opt_show_in_help o = true ->
           (rune_count (long_with_ns (pc_nsdelim cfg) ns (o_long o) ++ o_valname o ++ choices_text o) +
            (if is_root_path p then 0 else 4) <= al_maxlong a)%nat /\
           (o_short o <> 0 -> al_hasshort a = true) /\ (o_valname o <> [] -> al_hasvalname a = true)) /\
          (forall ar : arg,
           In ar (cmd_args c) ->
           (rune_count (a_name ar) + (if is_root_path p then 0 else 4) <= al_maxlong a)%nat)).
Proof. exact @C17_align_dominates. Qed.
Print Assumptions C17_alignment_dominates_every_row.

(* the help traversal consults the row layout only at row sites, and there the record has the computed columns and the indentation actually in force *)
Theorem C17_row_sites_use_the_computed_alignment :
  forall (cfg : pconfig) (root : command) (r : rt),
         (exists tl : list (list nat * command),
            HelpSpec.help_chain root r = ([], root) :: tl /\
            Forall (fun pc : list nat * command => is_root_path (fst pc) = false) tl) /\
         al_indent (help_align cfg root r) = false /\
         write_help_rows cfg root r = gen_write_help_rows cfg root r (model_ho cfg r) model_ha /\
         (forall (ho1 ho2 : list nat -> command -> group -> list str -> list str -> opt -> align -> res str)
            (ha1 ha2 : list nat -> command -> arg -> nat -> option str),
          (forall (p : list nat) (c : command) (g : group) (ns envns : list str) (o : opt) (a : align),
           help_opt_site cfg root r p c g ns envns o a -> ho1 p c g ns envns o a = ho2 p c g ns envns o a) ->
          (forall (p : list nat) (c : command) (ar : arg) (dstart : nat),
           help_arg_site cfg root r p c ar dstart -> ha1 p c ar dstart = ha2 p c ar dstart) ->
          gen_write_help_rows cfg root r ho1 ha1 = gen_write_help_rows cfg root r ho2 ha2) /\
         (forall (p : list nat) (c : command) (g : group) (ns envns : list str) (o : opt) (a : align),
          help_opt_site cfg root r p c g ns envns o a ->
          (al_indent a = true -> p <> []) /\
          al_maxlong a = al_maxlong (help_align cfg root r) /\
          al_hasshort a = al_hasshort (help_align cfg root r) /\
          al_hasvalname a = al_hasvalname (help_align cfg root r) /\
          (rune_count (long_with_ns (pc_nsdelim cfg) ns (o_long o) ++ o_valname o ++ choices_text o) +
           (if al_indent a then 4 else 0) <= al_maxlong a)%nat /\
          (o_short o <> 0 -> al_hasshort a = true) /\ (o_valname o <> [] -> al_hasvalname a = true)).
Proof. exact @C17_indent_consistent. Qed.
Print Assumptions C17_row_sites_use_the_computed_alignment.

(* padding stays positive even for names that are not valid UTF-8 *)
Theorem C17_padding_positive_any_names :
  forall (cfg : pconfig) (r : rt) (o : opt) (ns envns : list str) (g : group) (a : align),
         (rune_count (long_with_ns (pc_nsdelim cfg) ns (o_long o) ++ o_valname o ++ choices_text o) +
          (if al_indent a then 4 else 0) <= al_maxlong a)%nat ->
         (o_short o <> 0 -> al_hasshort a = true) ->
         (o_valname o <> [] -> al_hasvalname a = true) ->
         (rune_count (WrapSpec.help_line2 cfg o ns a) < description_start a + 2)%nat /\
         (forall msg : str, help_option cfg r o ns envns g a <> Panic msg) /\
         (exists out : str, help_option cfg r o ns envns g a = Ok out).
Proof. exact @C17_no_negative_padding_any_names. Qed.
Print Assumptions C17_padding_positive_any_names.

(* for every parser and terminal width WriteHelp returns output; no negative repeat count, for any names *)
Theorem C17_WriteHelp_never_panics :
  forall (cfg : pconfig) (root : command) (r : rt),
         (forall t : str, write_help_rows cfg root r <> Panic t) /\
         (forall t : str, write_help cfg root r <> Panic t) /\
         (exists (out : str) (rows : list hrow),
            write_help_rows cfg root r = Ok (out, rows) /\ write_help cfg root r = Ok out).
Proof. exact @C17_write_help_never_panics. Qed.
Print Assumptions C17_WriteHelp_never_panics.

(* the row is the name part padded to exactly the common column, then the description wrapped to max(10, cols - column) with continuation lines prefixed by exactly that many spaces *)
Theorem C17_descriptions_share_one_column :
  forall (cfg : pconfig) (r : rt) (o : opt) (ns envns : list str) (g : group) (a : align),
         (rune_count (long_with_ns (pc_nsdelim cfg) ns (o_long o) ++ o_valname o ++ choices_text o) +
          (if al_indent a then 4 else 0) <= al_maxlong a)%nat ->
         (o_short o <> 0 -> al_hasshort a = true) ->
         (o_valname o <> [] -> al_hasvalname a = true) ->
         o_desc o <> [] ->
         let col := (description_start a + 2)%nat in
         let line2 := WrapSpec.help_line2 cfg o ns a in
         let pad := spaces (col - rune_count line2) in
         let desc := help_desc cfg r o ns envns g in
         let width := if (cols cfg - Z.of_nat col <? 10)%Z then 10%nat else Z.to_nat (cols cfg - Z.of_nat col)
           in
         help_option cfg r o ns envns g a =
         Ok (line2 ++ pad ++ wrap_text desc (cols cfg - Z.of_nat col) (spaces col) ++ [10]) /\
         (rune_count line2 < col)%nat /\
         rune_count (line2 ++ pad) = col /\
         (10 <= width)%nat /\
         wrap_text desc (cols cfg - Z.of_nat col) (spaces col) =
         fold_left (glue_line (spaces col))
           (map (fun ln : str => wrap_line ln width (spaces col)) (split desc [10])) [] /\
         (forall ln : str,
          exists pieces : list str,
            wrap_line ln width (spaces col) = join pieces ([10] ++ spaces col) /\
            Forall (fun p : list N => p <> []) pieces /\ Forall (WrapSpec.piece_ok width) pieces) /\
         (~ In 10 desc ->
          exists pieces : list str,
            help_option cfg r o ns envns g a = Ok (line2 ++ pad ++ join pieces ([10] ++ spaces col) ++ [10]) /\
            Forall (fun p : list N => p <> []) pieces /\ Forall (WrapSpec.piece_ok width) pieces).
Proof. exact @C17_common_column. Qed.
Print Assumptions C17_descriptions_share_one_column.

Theorem C17_one_column_for_the_whole_help :
  forall (cfg : pconfig) (root : command) (r : rt),
         (forall (p : list nat) (c : command) (g : group) (ns envns : list str) (o : opt) (a : align),
          help_opt_site cfg root r p c g ns envns o a ->
          (description_start a + 2)%nat = (description_start (help_align cfg root r) + 2)%nat) /\
         (forall (p : list nat) (c : command) (ar : arg) (dstart : nat),
          help_arg_site cfg root r p c ar dstart ->
          dstart = (description_start (help_align cfg root r) + 2)%nat /\
          arg_pad ar dstart = Some (spaces (dstart - rune_count (s2l "  " ++ a_name ar ++ s2l ":"))) /\
          rune_count
            ((s2l "  " ++ a_name ar ++ s2l ":") ++
             spaces (dstart - rune_count (s2l "  " ++ a_name ar ++ s2l ":"))) = dstart).
Proof. exact @C17_common_column_help. Qed.
Print Assumptions C17_one_column_for_the_whole_help.

Theorem C17_concatenation_loses_at_most_3_runes :
  forall b a : str, (rune_count a + rune_count b <= rune_count (a ++ b) + 3)%nat.
Proof. exact @rune_count_app_le3. Qed.
Print Assumptions C17_concatenation_loses_at_most_3_runes.

