(* C17 - Help layout is well-formed for every declaration and width.
   Statements only: each theorem re-states a lemma of Proofs.WrapSpec verbatim and is closed by [exact]. *)
From GoFlags Require Import Base.Str Base.Utf8 Golib.Strings Golib.Strconv Model.Types Model.Tag Model.Scan Model.Lookup Model.Convert Model.State Model.Closest Model.Help Model.Parse Model.Ini Model.Complete.
From GoFlags Require Import Proofs.WrapSpec.
Open Scope N_scope.

(* the wrapping loop always terminates within its fuel (width >= 2; wrapText enforces >= 10) *)
Theorem C17_wrap_terminates :
  forall (l : nat) (prefix : str),
         (2 <= l)%nat ->
         forall (fuel : nat) (line : list N) (acc : str),
         (Datatypes.length line < fuel)%nat ->
         wrap_line_opt fuel line l prefix acc = Some (wrap_line_fuel fuel line l prefix acc).
Proof. exact C17_wrap_fuel_never_exhausted. Qed.
Print Assumptions C17_wrap_terminates.

Theorem C17_wrap_fuel_irrelevant :
  forall (line : list N) (l : nat) (prefix acc : str) (k : nat),
         (2 <= l)%nat ->
         wrap_line_fuel (S (Datatypes.length line) + k) line l prefix acc =
         wrap_line_fuel (S (Datatypes.length line)) line l prefix acc.
Proof. exact C17_wrap_fuel. Qed.
Print Assumptions C17_wrap_fuel_irrelevant.

(* every line of a wrapped description has at most max(width,10) characters (a hard-broken piece: body plus hyphen) *)
Theorem C17_line_width :
  forall (s : str) (l : Z) (prefix : str),
         let l' := if (l <? 10)%Z then 10%nat else Z.to_nat l in
         wrap_text s l prefix = wrap_lines (split s [10]) l' prefix [] /\
         (10 <= l')%nat /\
         (forall line : str,
          In line (split s [10]) ->
          exists pieces : list str,
            wrap_line line l' prefix = join pieces ([10] ++ prefix) /\
            Forall (fun p : list N => p <> []) pieces /\ Forall (piece_ok l') pieces).
Proof. exact C17_wrap_width_text. Qed.
Print Assumptions C17_line_width.

Theorem C17_line_width_pieces :
  forall (line : str) (l : nat) (prefix : str),
         (2 <= l)%nat ->
         exists pieces : list str,
           pieces = wrap_pieces (S (Datatypes.length (trim_space line))) (trim_space line) l /\
           wrap_line line l prefix = join pieces ([10] ++ prefix) /\
           Forall (fun p : list N => p <> []) pieces /\ Forall (piece_ok l) pieces.
Proof. exact C17_wrap_width. Qed.
Print Assumptions C17_line_width_pieces.

(* the wrapped text contains the original characters in the original order: nothing lost, duplicated, reordered or corrupted (white space and hyphens aside), for arbitrary byte strings *)
Theorem C17_words_preserved :
  forall (s : str) (l : Z) (prefix : str),
         all_spaces prefix -> strip_runes (wrap_text s l prefix) = strip_runes s.
Proof. exact C17_wrap_preserves_runes. Qed.
Print Assumptions C17_words_preserved.

Theorem C17_words_preserved_ascii :
  forall (s : str) (l : Z) (prefix : str),
         ascii s -> all_spaces prefix -> strip (wrap_text s l prefix) = strip s.
Proof. exact C17_wrap_preserves_characters. Qed.
Print Assumptions C17_words_preserved_ascii.

(* valid UTF-8 stays valid UTF-8 on both sides of every cut *)
Theorem C17_cuts_at_character_boundaries :
  forall (line : str) (l : nat),
         let pos := fst (wrap_cut line l) in
         (pos <= Datatypes.length line)%nat /\
         range_str line = range_str (firstn pos line) ++ map (shift pos) (range_str (skipn pos line)) /\
         runes line = runes (firstn pos line) ++ runes (skipn pos line) /\
         (valid_utf8 line = true -> valid_utf8 (firstn pos line) = true /\ valid_utf8 (skipn pos line) = true).
Proof. exact C17_wrap_cut_utf8_safe. Qed.
Print Assumptions C17_cuts_at_character_boundaries.

Theorem C17_rune_offset_is_boundary :
  forall (line : str) (n : nat),
         let off := rune_offset line n in
         off = list_sum (map (fun x : nat * N * nat => snd x) (firstn n (range_str line))) /\
         (exists k : nat,
            (k <= rune_count line)%nat /\
            off = list_sum (map (fun x : nat * N * nat => snd x) (firstn k (range_str line)))) /\
         (off <= Datatypes.length line)%nat /\
         range_str (firstn off line) = firstn n (range_str line) /\
         map (shift off) (range_str (skipn off line)) = skipn n (range_str line) /\
         runes line = runes (firstn off line) ++ runes (skipn off line) /\
         rune_count (firstn off line) = Nat.min n (rune_count line) /\
         valid_utf8 line = valid_utf8 (firstn off line) && valid_utf8 (skipn off line) /\
         (valid_utf8 line = true -> valid_utf8 (firstn off line) = true /\ valid_utf8 (skipn off line) = true).
Proof. exact C17_wrap_utf8_safe. Qed.
Print Assumptions C17_rune_offset_is_boundary.

(* an option row whose name is dominated by the alignment record never makes strings.Repeat panic: the padding is strictly positive *)
Theorem C17_no_negative_padding :
  forall (cfg : pconfig) (r : rt) (o : opt) (ns envns : list str) (g : group) (a : align),
         valid_utf8 (long_with_ns (pc_nsdelim cfg) ns (o_long o)) = true ->
         (rune_count (long_with_ns (pc_nsdelim cfg) ns (o_long o) ++ o_valname o ++ choices_text o) +
          (if al_indent a then 4 else 0) <= al_maxlong a)%nat ->
         (o_short o <> 0 -> al_hasshort a = true) ->
         (rune_count (help_line2 cfg o ns a) < description_start a + 2)%nat /\
         (forall msg : str, help_option cfg r o ns envns g a <> Panic msg) /\
         (exists out : str, help_option cfg r o ns envns g a = Ok out) /\
         (exists rest : list N,
            help_option cfg r o ns envns g a =
            Ok
              (help_line2 cfg o ns a ++
               (if nonempty (o_desc o)
                then spaces (description_start a + 2 - rune_count (help_line2 cfg o ns a))
                else []) ++ rest)).
Proof. exact C17_no_negative_padding_option. Qed.
Print Assumptions C17_no_negative_padding.

