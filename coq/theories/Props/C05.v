(* C05 - Defaults and value-source precedence.
   Statements only: each theorem re-states a lemma of Proofs.ValueSpec verbatim and is closed by [exact]. *)
From GoFlags Require Import Base.Str Base.Utf8 Golib.Strings Golib.Strconv Model.Types Model.Tag Model.Scan Model.Lookup Model.Convert Model.State Model.Closest Model.Help Model.Parse Model.Ini Model.Complete.
From GoFlags Require Import Proofs.ValueSpec.
Open Scope N_scope.

(* an option that was set explicitly or from INI ignores env and default tags; otherwise env (set, even empty) ranks above default tags, which rank above the initial value (discarded before defaults are applied) *)
Theorem C05_clear_default :
  forall (orc : oracles) (delim : str) (ht : rt -> str) (env : list (str * str)) 
           (edelim : str) (oc : octx) (r : rt),
         let o := oc_opt oc in
         let fid := o_fid o in
         let used := default_source env edelim oc in
         let r1 := set_fl r fid (mark_default (rt_fl r fid)) in
         (f_prevent (rt_fl r fid) = true -> opt_clear_default orc delim ht env edelim oc r = Ok (r, None)) /\
         (f_prevent (rt_fl r fid) = false ->
          used = [] ->
          exists r' : rt,
            opt_clear_default orc delim ht env edelim oc r = Ok (r', None) /\
            rt_vals r' fid = clear_value (o_ty o) (rt_vals r fid) /\
            (nil_wf (rt_vals r fid) -> rt_vals r' fid = unnil_map (o_ty o) (rt_vals r fid)) /\
            rt_fl r' fid = mark_default (rt_fl r fid) /\
            f_isdefault (rt_fl r' fid) = true /\ rt_logs r' = rt_logs r /\ frame_at fid r r') /\
         (f_prevent (rt_fl r fid) = false ->
          used <> [] ->
          opt_clear_default orc delim ht env edelim oc r = set_defaults orc delim ht oc used (opt_empty o r1)).
Proof. exact opt_clear_default_spec. Qed.
Print Assumptions C05_clear_default.

Theorem C05_env_counts_when_set :
  forall (env : list (str * str)) (edelim : str) (oc : octx) (v : str),
         nonempty (env_key edelim oc) = true ->
         assoc_str env (env_key edelim oc) = Some v -> default_source env edelim oc <> [].
Proof. exact default_source_env. Qed.
Print Assumptions C05_env_counts_when_set.

Theorem C05_set_default :
  forall (orc : oracles) (delim : str) (ht : rt -> str) (oc : octx) (arg : option str) (r : rt),
         let fid := o_fid (oc_opt oc) in
         (f_prevent (rt_fl r fid) = true -> opt_set_default orc delim ht oc arg r = Ok (r, None)) /\
         (f_prevent (rt_fl r fid) = false ->
          opt_set_default orc delim ht oc arg r =
          match opt_set orc delim ht oc arg r with
          | Ok (r', Some e) => Ok (r', Some e)
          | Ok (r', None) =>
              Ok
                (set_fl r' fid
                   (fl_with (rt_fl r' fid) (f_isset (rt_fl r' fid)) true false (f_clearref (rt_fl r' fid))),
                 None)
          | Err e => Err e
          | Panic w => Panic w
          end).
Proof. exact opt_set_default_spec. Qed.
Print Assumptions C05_set_default.

(* explicitly given values replace - never extend - values from lower-ranked sources (the first occurrence after the clear flag was armed discards the previous contents) *)
Theorem C05_explicit_replaces :
  forall (orc : oracles) (delim : str) (ht : rt -> str) (oc : octx) (e : vtype) 
           (v : str) (x : value) (r : rt),
         let o := oc_opt oc in
         let fid := o_fid o in
         o_ty o = TSlice e ->
         o_choices o = [] ->
         convert orc (o_base o) v e (zero_value e) = Ok (x, None) ->
         let old := if f_clearref (rt_fl r fid) then [] else slice_elems (rt_vals r fid) in
         exists r' : rt,
           opt_set orc delim ht oc (Some v) r = Ok (r', None) /\
           set_result fid r r' (VSlice false (old ++ [x])) /\ f_clearref (rt_fl r' fid) = false.
Proof. exact opt_set_slice. Qed.
Print Assumptions C05_explicit_replaces.

Theorem C05_clear_default_frame :
  forall (orc : oracles) (delim : str) (ht : rt -> str) (env : list (str * str)) 
           (edelim : str) (oc : octx) (r r' : rt) (e : option err),
         opt_clear_default orc delim ht env edelim oc r = Ok (r', e) -> frame_at (o_fid (oc_opt oc)) r r'.
Proof. exact opt_clear_default_frame. Qed.
Print Assumptions C05_clear_default_frame.

