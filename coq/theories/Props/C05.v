(* C05 - Defaults and value-source precedence.
   Statements only: each theorem re-states a lemma of Proofs.ValueSpec verbatim and is closed by [exact]. *)
From GoFlags Require Import Base.Str Base.Utf8 Golib.Strings Golib.Strconv Model.Types Model.Tag Model.Scan Model.Lookup Model.Convert Model.State Model.Closest Model.Help Model.Parse Model.Ini Model.Complete.
From GoFlags Require Import Proofs.ValueSpec.
Open Scope N_scope.

(* an option that was set explicitly or from INI ignores env and default tags; otherwise env (set, even empty) ranks above default tags, which rank above the initial value (discarded before defaults are applied) *)
Theorem C05_clear_default :
  forall (orc : oracles) (delim : str) (ht : rt -> str) (env : list (str * str)) 
           (edelim : str) (oc : octx) (r : rt),
         let o := oc_opt oc in
         let fid := o_fid o in
         let used := default_source env edelim oc in
         let r1 := set_fl r fid (mark_default (rt_fl r fid)) in
         (f_prevent (rt_fl r fid) = true -> opt_clear_default orc delim ht env edelim oc r = Ok (r, None)) /\
         (f_prevent (rt_fl r fid) = false ->
          used = [] ->
          exists r' : rt,
            opt_clear_default orc delim ht env edelim oc r = Ok (r', None) /\
            rt_vals r' fid = clear_value (o_ty o) (rt_vals r fid) /\
            (nil_wf (rt_vals r fid) -> rt_vals r' fid = unnil_map (o_ty o) (rt_vals r fid)) /\
            rt_fl r' fid = mark_default (rt_fl r fid) /\
            f_isdefault (rt_fl r' fid) = true /\ rt_logs r' = rt_logs r /\ frame_at fid r r') /\
         (f_prevent (rt_fl r fid) = false ->
          used <> [] ->
          opt_clear_default orc delim ht env edelim oc r = set_defaults orc delim ht oc used (opt_empty o r1)).
Proof. exact @opt_clear_default_spec. Qed.
Print Assumptions C05_clear_default.

Theorem C05_env_counts_when_set :
  forall (env : list (str * str)) (edelim : str) (oc : octx) (v : str),
         nonempty (env_key edelim oc) = true ->
         assoc_str env (env_key edelim oc) = Some v -> default_source env edelim oc <> [].
Proof. exact @default_source_env. Qed.
Print Assumptions C05_env_counts_when_set.

Theorem C05_set_default :
  forall (orc : oracles) (delim : str) (ht : rt -> str) (oc : octx) (arg : option str) (r : rt),
         let fid := o_fid (oc_opt oc) in
         (f_prevent (rt_fl r fid) = true -> opt_set_default orc delim ht oc arg r = Ok (r, None)) /\
         (f_prevent (rt_fl r fid) = false ->
          opt_set_default orc delim ht oc arg r =
          match opt_set orc delim ht oc arg r with
          | Ok (r', Some e) => Ok (r', Some e)
          | Ok (r', None) =>
              Ok
                (set_fl r' fid
                   (fl_with (rt_fl r' fid) (f_isset (rt_fl r' fid)) true false (f_clearref (rt_fl r' fid))),
                 None)
          | Err e => Err e
          | Panic w => Panic w
          end).
Proof. exact @opt_set_default_spec. Qed.
Print Assumptions C05_set_default.

(* explicitly given values replace - never extend - values from lower-ranked sources (the first occurrence after the clear flag was armed discards the previous contents) *)
Theorem C05_explicit_replaces :
  forall (orc : oracles) (delim : str) (ht : rt -> str) (oc : octx) (e : vtype) 
           (v : str) (x : value) (r : rt),
         let o := oc_opt oc in
         let fid := o_fid o in
         o_ty o = TSlice e ->
         o_choices o = [] ->
         convert orc (o_base o) v e (zero_value e) = Ok (x, None) ->
         let old := if f_clearref (rt_fl r fid) then [] else slice_elems (rt_vals r fid) in
         exists r' : rt,
           opt_set orc delim ht oc (Some v) r = Ok (r', None) /\
           set_result fid r r' (VSlice false (old ++ [x])) /\ f_clearref (rt_fl r' fid) = false.
Proof. exact @opt_set_slice. Qed.
Print Assumptions C05_explicit_replaces.

Theorem C05_clear_default_frame :
  forall (orc : oracles) (delim : str) (ht : rt -> str) (env : list (str * str)) 
           (edelim : str) (oc : octx) (r r' : rt) (e : option err),
         opt_clear_default orc delim ht env edelim oc r = Ok (r', e) -> frame_at (o_fid (oc_opt oc)) r r'.
Proof. exact @opt_clear_default_frame. Qed.
Print Assumptions C05_clear_default_frame.

(* ---- added by bin/mkprops (batch 2) ---- *)
From GoFlags Require Import Base.Str Base.Utf8 Golib.Strings Golib.Strconv Model.Types Model.Tag Model.Scan Model.Lookup Model.Convert Model.State Model.Closest Model.Help Model.Parse Model.Ini Model.Complete.
From GoFlags Require Import Proofs.PrecedenceSpec.

(* once an option has been given explicitly (command line or INI) nothing in Set, defaults, the loop or the defaults pass un-marks it *)
Theorem C05_prevent_is_monotone :
  forall (cfg : pconfig) (orc : oracles) (root : command) (ht : rt -> str),
         let delim := pc_nsdelim cfg in
         (forall (oc : octx) (arg : option str) (r r' : rt) (e : option err),
          opt_set orc delim ht oc arg r = Ok (r', e) ->
          prevent_mono r r' /\
          f_prevent (rt_fl r' (fid_of oc)) = true /\
          f_isset (rt_fl r' (fid_of oc)) = true /\
          rt_fl r' (fid_of oc) = ValueSpec.set_flags (rt_fl r (fid_of oc))) /\
         (forall (oc : octx) (arg : option str) (r r' : rt) (e : option err),
          opt_set_default orc delim ht oc arg r = Ok (r', e) -> prevent_mono r r') /\
         (forall (oc : octx) (ds : list str) (r r' : rt) (e : option err),
          set_defaults orc delim ht oc ds r = Ok (r', e) -> prevent_mono r r') /\
         (forall (env : list (str * str)) (edelim : str) (oc : octx) (r r' : rt) (e : option err),
          opt_clear_default orc delim ht env edelim oc r = Ok (r', e) -> prevent_mono r r') /\
         (forall (s : pst) (r : rt) (s' : pst) (r' : rt),
          step cfg orc root ht s r = Ok (Continue s' r') -> prevent_mono r r') /\
         (forall (s : pst) (r : rt) (s' : pst) (r' : rt),
          step cfg orc root ht s r = Ok (Break s' r') -> prevent_mono r r') /\
         (forall (fuel : nat) (s : pst) (r : rt) (s' : pst) (r' : rt),
          run_loop cfg orc root ht fuel s r = Ok (s', r') -> prevent_mono r r') /\
         (forall (ocs : list octx) (s : pst) (r : rt) (s' : pst) (r' : rt),
          clear_defaults cfg orc ht ocs s r = Ok (s', r') -> prevent_mono r r').
Proof. exact @C05_prevent_monotone. Qed.
Print Assumptions C05_prevent_is_monotone.

Theorem C05_given_options_ignore_env_and_defaults :
  forall (cfg : pconfig) (orc : oracles) (ht : rt -> str),
         (forall (env : list (str * str)) (edelim : str) (oc : octx) (r : rt),
          f_prevent (rt_fl r (o_fid (oc_opt oc))) = true ->
          opt_clear_default orc (pc_nsdelim cfg) ht env edelim oc r = Ok (r, None)) /\
         (forall (ocs : list octx) (s : pst) (r : rt) (s' : pst) (r' : rt),
          clear_defaults cfg orc ht ocs s r = Ok (s', r') ->
          forall fid : nat,
          f_prevent (rt_fl r fid) = true -> rt_vals r' fid = rt_vals r fid /\ rt_fl r' fid = rt_fl r fid).
Proof. exact @C05_prevented_untouched_by_defaults. Qed.
Print Assumptions C05_given_options_ignore_env_and_defaults.

Theorem C05_defaults_pass_is_pointwise :
  forall (cfg : pconfig) (orc : oracles) (ht : rt -> str) (ocs : list octx) 
           (s : pst) (r : rt) (s' : pst) (r' : rt),
         clear_defaults cfg orc ht ocs s r = Ok (s', r') ->
         NoDup (map fid_of ocs) ->
         forall oc : octx,
         In oc ocs ->
         exists (rm : rt) (e : option err),
           opt_clear_default orc (pc_nsdelim cfg) ht (pc_env cfg) (pc_envdelim cfg) oc r = Ok (rm, e) /\
           agree_at (fid_of oc) r' rm /\
           (e <> None ->
            exists (oc' : octx) (er' : err), In oc' ocs /\ ps_err s' = Some (wrap_marshal cfg oc' er')).
Proof. exact @clear_defaults_pointwise. Qed.
Print Assumptions C05_defaults_pass_is_pointwise.

(* an option that was not given ends with env (if set) else default tags applied to the EMPTIED value (replace, never extend), else the initial value *)
Theorem C05_not_given_gets_highest_source :
  forall (cfg : pconfig) (orc : oracles) (ht : rt -> str) (ocs : list octx) 
           (s : pst) (r : rt) (s' : pst) (r' : rt) (oc : octx),
         let delim := pc_nsdelim cfg in
         let o := oc_opt oc in
         let fid := o_fid o in
         let used := ValueSpec.default_source (pc_env cfg) (pc_envdelim cfg) oc in
         clear_defaults cfg orc ht ocs s r = Ok (s', r') ->
         NoDup (map (fun oc0 : octx => o_fid (oc_opt oc0)) ocs) ->
         In oc ocs ->
         f_prevent (rt_fl r fid) = false ->
         (used = [] ->
          rt_vals r' fid = ValueSpec.clear_value (o_ty o) (rt_vals r fid) /\
          (ValueSpec.nil_wf (rt_vals r fid) -> rt_vals r' fid = ValueSpec.unnil_map (o_ty o) (rt_vals r fid)) /\
          rt_fl r' fid = ValueSpec.mark_default (rt_fl r fid)) /\
         (used <> [] ->
          exists (rm : rt) (e : option err),
            set_defaults orc delim ht oc used
              (opt_empty o (set_fl r fid (ValueSpec.mark_default (rt_fl r fid)))) = 
            Ok (rm, e) /\
            rt_vals r' fid = rt_vals rm fid /\
            rt_fl r' fid = rt_fl rm fid /\
            (e <> None ->
             exists (oc' : octx) (er' : err), In oc' ocs /\ ps_err s' = Some (wrap_marshal cfg oc' er'))).
Proof. exact @C05_unprevented_gets_source. Qed.
Print Assumptions C05_not_given_gets_highest_source.

Theorem C05_defaults_replace_initial_contents :
  forall (orc : oracles) (delim : str) (ht : rt -> str) (oc : octx) (used : list str) (ra rb : rt),
         let o := oc_opt oc in
         let fid := o_fid o in
         is_func (o_ty o) = false ->
         rt_fl ra fid = rt_fl rb fid ->
         rel_res fid
           (set_defaults orc delim ht oc used
              (opt_empty o (set_fl ra fid (ValueSpec.mark_default (rt_fl ra fid)))))
           (set_defaults orc delim ht oc used
              (opt_empty o (set_fl rb fid (ValueSpec.mark_default (rt_fl rb fid))))).
Proof. exact @C05_defaults_replace_initial. Qed.
Print Assumptions C05_defaults_replace_initial_contents.

Theorem C05_default_error_is_reported :
  forall (cfg : pconfig) (orc : oracles) (ht : rt -> str) (pre : list octx) 
           (oc : octx) (post : list octx) (s : pst) (r : rt) (s' : pst) (r' rm : rt) 
           (er : err),
         clear_defaults cfg orc ht (pre ++ oc :: post) s r = Ok (s', r') ->
         NoDup (map fid_of (pre ++ oc :: post)) ->
         opt_clear_default orc (pc_nsdelim cfg) ht (pc_env cfg) (pc_envdelim cfg) oc r = Ok (rm, Some er) ->
         (forall oc' : octx, In oc' post -> default_ok cfg orc ht oc' r) ->
         exists er' : err, same_err (Some er') (Some er) /\ ps_err s' = Some (wrap_marshal cfg oc er').
Proof. exact @C05_default_error_reported. Qed.
Print Assumptions C05_default_error_is_reported.

(* the value stored by an explicit occurrence does not depend on what lower-ranked sources had put there *)
Theorem C05_explicit_value_independent_of_lower_sources :
  forall (orc : oracles) (delim : str) (ht : rt -> str) (oc : octx) (arg : option str) (ra rb ra' : rt),
         is_func (o_ty (oc_opt oc)) = false ->
         armed oc ra ->
         armed oc rb ->
         opt_set orc delim ht oc arg ra = Ok (ra', None) ->
         exists rb' : rt,
           opt_set orc delim ht oc arg rb = Ok (rb', None) /\ rt_vals rb' (fid_of oc) = rt_vals ra' (fid_of oc).
Proof. exact @C05_explicit_value_independent. Qed.
Print Assumptions C05_explicit_value_independent_of_lower_sources.

Theorem C05_ini_as_defaults_then_flag :
  forall (orc : oracles) (delim : str) (ht : rt -> str) (ign : bool) (groups : list gref)
           (e : ini_entry) (r : rt) (q : quotes) (dfl : list nat) (oc : octx) (r1 : rt) 
           (q1 : quotes) (dfl1 : list nat),
         let fid := o_fid (oc_opt oc) in
         resolve_entry delim groups (ie_name e) = Some oc ->
         f_prevent (rt_fl r fid) = false \/ In fid dfl ->
         apply_entry orc delim ht ign true groups e r q dfl = Ok (r1, q1, dfl1, None) ->
         (exists (v : option str) (rs : rt),
            opt_set orc delim ht oc v (unprevent fid r) = Ok (rs, None) /\ rt_vals r1 = rt_vals rs) /\
         ini_default_marks fid (ie_name e) r1 /\
         dfl1 = fid :: dfl /\
         (is_func (o_ty (oc_opt oc)) = false ->
          forall arg : option str,
          (forall r2 : rt,
           opt_set orc delim ht oc arg (rearm fid r1) = Ok (r2, None) ->
           exists r2' : rt,
             opt_set orc delim ht oc arg (rearm fid r) = Ok (r2', None) /\ rt_vals r2' fid = rt_vals r2 fid) /\
          (forall r2' : rt,
           opt_set orc delim ht oc arg (rearm fid r) = Ok (r2', None) ->
           exists r2 : rt,
             opt_set orc delim ht oc arg (rearm fid r1) = Ok (r2, None) /\ rt_vals r2 fid = rt_vals r2' fid)) /\
         (forall (arg : option str) (r2 : rt) (e2 : option err),
          opt_set orc delim ht oc arg (rearm fid r1) = Ok (r2, e2) ->
          f_prevent (rt_fl r2 fid) = true /\ f_isset (rt_fl r2 fid) = true /\ f_isdefault (rt_fl r2 fid) = true).
Proof. exact @C05_ini_defaults_then_flag. Qed.
Print Assumptions C05_ini_as_defaults_then_flag.

Theorem C05_flag_then_ini_as_defaults :
  forall (orc : oracles) (delim : str) (ht : rt -> str) (ign : bool),
         (forall (oc : octx) (arg : option str) (r0 r : rt) (e0 : option err) (groups : list gref)
            (e : ini_entry) (q : quotes) (dfl : list nat) (oc' : octx),
          opt_set orc delim ht oc arg r0 = Ok (r, e0) ->
          resolve_entry delim groups (ie_name e) = Some oc' ->
          o_fid (oc_opt oc') = o_fid (oc_opt oc) ->
          ~ In (o_fid (oc_opt oc)) dfl ->
          apply_entry orc delim ht ign true groups e r q dfl = Ok (r, q, dfl, None)) /\
         (forall (root : command) (f : ini_file) (r r' : rt) (er : option err) (fid : nat),
          f_prevent (rt_fl r fid) = true ->
          ini_apply orc delim ht ign true root f r = Ok (r', er) ->
          rt_vals r' fid = rt_vals r fid /\ (exists c : bool, rt_fl r' fid = keep_but_clearref (rt_fl r fid) c)).
Proof. exact @C05_flag_then_ini_defaults. Qed.
Print Assumptions C05_flag_then_ini_as_defaults.

(* INI as-defaults ranks below the command line in whichever order they are processed *)
Theorem C05_ini_as_defaults_both_orders_agree :
  forall (orc : oracles) (delim : str) (ht : rt -> str) (ign : bool) (groups : list gref)
           (e : ini_entry) (r : rt) (q : quotes) (dfl : list nat) (oc : octx) (r1 : rt) 
           (q1 : quotes) (dfl1 : list nat) (arg : option str) (r2 : rt),
         let fid := o_fid (oc_opt oc) in
         resolve_entry delim groups (ie_name e) = Some oc ->
         f_prevent (rt_fl r fid) = false \/ In fid dfl ->
         is_func (o_ty (oc_opt oc)) = false ->
         apply_entry orc delim ht ign true groups e r q dfl = Ok (r1, q1, dfl1, None) ->
         opt_set orc delim ht oc arg (rearm fid r1) = Ok (r2, None) ->
         exists rb : rt,
           opt_set orc delim ht oc arg (rearm fid r) = Ok (rb, None) /\
           (forall (q' : quotes) (dfl' : list nat),
            ~ In fid dfl' -> apply_entry orc delim ht ign true groups e rb q' dfl' = Ok (rb, q', dfl', None)) /\
           rt_vals rb fid = rt_vals r2 fid.
Proof. exact @C05_ini_flag_orders_agree. Qed.
Print Assumptions C05_ini_as_defaults_both_orders_agree.

Theorem C05_ini_as_defaults_beats_env_and_tags :
  forall (cfg : pconfig) (orc : oracles) (ht : rt -> str) (ign : bool),
         let delim := pc_nsdelim cfg in
         (forall (groups : list gref) (e : ini_entry) (r : rt) (q : quotes) (dfl : list nat) 
            (oc : octx) (r1 : rt) (q1 : quotes) (dfl1 : list nat),
          let fid := o_fid (oc_opt oc) in
          resolve_entry delim groups (ie_name e) = Some oc ->
          f_prevent (rt_fl r fid) = false \/ In fid dfl ->
          apply_entry orc delim ht ign true groups e r q dfl = Ok (r1, q1, dfl1, None) ->
          opt_clear_default orc delim ht (pc_env cfg) (pc_envdelim cfg) oc r1 = Ok (r1, None) /\
          (forall r2 : rt,
           prevent_mono r1 r2 ->
           forall (ocs : list octx) (s s' : pst) (r' : rt),
           clear_defaults cfg orc ht ocs s r2 = Ok (s', r') ->
           rt_vals r' fid = rt_vals r2 fid /\ rt_fl r' fid = rt_fl r2 fid)) /\
         (forall (root : command) (f : ini_file) (r r' : rt),
          ini_apply orc delim ht ign true root f r = Ok (r', None) ->
          prevent_mono r r' /\
          (forall fid : nat,
           f_prevent (rt_fl r' fid) = true \/
           rt_vals r' fid = rt_vals r fid /\ fl_core_eq (rt_fl r' fid) (rt_fl r fid))).
Proof. exact @C05_ini_defaults_beat_env_and_tags. Qed.
Print Assumptions C05_ini_as_defaults_beats_env_and_tags.

(* END TO END over ParseArgs' core: loop, then per option either untouched (given) or env > default tags > initial value *)
Theorem C05_precedence_end_to_end :
  forall (cfg : pconfig) (orc : oracles) (root : command) (ht : rt -> str) (args : list str) 
           (r : rt) (s' : pst) (r' : rt),
         parse_core cfg orc root ht args r = Ok (s', r') ->
         ps_err s' = None ->
         NoDup (map (fun oc : octx => o_fid (oc_opt oc)) (tree_octxs root)) ->
         exists (s1 : pst) (r1 : rt),
           run_loop cfg orc root ht (S (Datatypes.length args)) (initial_pst cfg root args) r = Ok (s1, r1) /\
           ps_err s1 = None /\
           prevent_mono r r1 /\
           (forall k : nat,
            ~ In k (map (fun oc : octx => o_fid (oc_opt oc)) (tree_octxs root)) ->
            rt_vals r' k = rt_vals r1 k /\ rt_fl r' k = rt_fl r1 k) /\
           (forall oc : octx,
            In oc (tree_octxs root) ->
            let o := oc_opt oc in
            let fid := o_fid o in
            let used := ValueSpec.default_source (pc_env cfg) (pc_envdelim cfg) oc in
            (f_prevent (rt_fl r1 fid) = true -> rt_vals r' fid = rt_vals r1 fid /\ rt_fl r' fid = rt_fl r1 fid) /\
            (f_prevent (rt_fl r1 fid) = false ->
             used = [] ->
             rt_vals r' fid = ValueSpec.clear_value (o_ty o) (rt_vals r1 fid) /\
             (ValueSpec.nil_wf (rt_vals r1 fid) ->
              rt_vals r' fid = ValueSpec.unnil_map (o_ty o) (rt_vals r1 fid)) /\
             rt_fl r' fid = ValueSpec.mark_default (rt_fl r1 fid)) /\
            (f_prevent (rt_fl r1 fid) = false ->
             used <> [] ->
             exists rm : rt,
               set_defaults orc (pc_nsdelim cfg) ht oc used
                 (opt_empty o (set_fl r1 fid (ValueSpec.mark_default (rt_fl r1 fid)))) = 
               Ok (rm, None) /\ rt_vals r' fid = rt_vals rm fid /\ rt_fl r' fid = rt_fl rm fid)).
Proof. exact @C05_end_to_end. Qed.
Print Assumptions C05_precedence_end_to_end.

Theorem C05_no_defaults_after_loop_error :
  forall (cfg : pconfig) (orc : oracles) (root : command) (ht : rt -> str) (args : list str) 
           (r : rt) (s' : pst) (r' : rt) (s1 : pst) (r1 : rt) (er : err),
         parse_core cfg orc root ht args r = Ok (s', r') ->
         run_loop cfg orc root ht (S (Datatypes.length args)) (initial_pst cfg root args) r = Ok (s1, r1) ->
         ps_err s1 = Some er -> s' = s1 /\ r' = r1.
Proof. exact @C05_no_defaults_after_error. Qed.
Print Assumptions C05_no_defaults_after_loop_error.

Theorem C05_prologue_rearms_replace_semantics :
  forall (orc : oracles) (ocs : list octx) (r r' : rt),
         Scenario.prologue_opts orc ocs r = Ok r' ->
         rt_vals r' = rt_vals r /\
         (forall k : nat,
          f_prevent (rt_fl r' k) = f_prevent (rt_fl r k) /\
          f_isset (rt_fl r' k) = f_isset (rt_fl r k) /\ f_isdefault (rt_fl r' k) = f_isdefault (rt_fl r k)) /\
         (forall k : nat, f_clearref (rt_fl r k) = true -> f_clearref (rt_fl r' k) = true) /\
         (forall oc : octx, In oc ocs -> f_clearref (rt_fl r' (fid_of oc)) = true /\ armed oc r').
Proof. exact @prologue_arms. Qed.
Print Assumptions C05_prologue_rearms_replace_semantics.

