(* C10 - Positional arguments bind in declaration order.  Statements only. *)
From GoFlags Require Import Base.Str Model.Types Model.State Model.Parse Proofs.ArgsSpec.
Open Scope N_scope.

(* [bind_spec] (Proofs/ArgsSpec.v) is the independent specification: tokens are
   assigned to the declared positional fields in declaration order, a trailing
   slice field absorbs all further tokens, tokens beyond the declared fields are
   left over.  A successful addArgs stores exactly the conversions of the bound
   tokens, in order, and appends exactly the left-over tokens. *)
Theorem C10_binding : forall orc toks s r s' r',
  add_args orc toks s r = Ok (s', r', None) ->
  ps_ret s' = ps_ret s ++ snd (bind_spec (ps_pos s) toks) /\
  ps_pos s' = queue_after (ps_pos s) toks /\
  r' = fold_left (store_binding orc) (fst (bind_spec (ps_pos s) toks)) r /\
  ps_args s' = ps_args s /\ ps_arg s' = ps_arg s /\ ps_err s' = ps_err s /\ ps_cmd s' = ps_cmd s.
Proof. exact add_args_spec. Qed.
Print Assumptions C10_binding.

(* options interleaved between the plain tokens do not disturb the binding: binding
   a ++ b in one call equals binding a, then b *)
Theorem C10_interleaving : forall orc a b s r,
  add_args orc (a ++ b) s r =
  match add_args orc a s r with
  | Ok (s1, r1, None) => add_args orc b s1 r1
  | other => other
  end.
Proof. exact add_args_app. Qed.
Print Assumptions C10_interleaving.

(* a token that does not convert stops the parse with that (foreign) error recorded *)
Theorem C10_conversion_failure : forall orc toks s r s' r' e,
  add_args orc toks s r = Ok (s', r', Some e) -> ps_err s' = Some e /\ exists m, e = EForeign m.
Proof. exact add_args_error. Qed.
Print Assumptions C10_conversion_failure.

(* non-vacuity: a two-field layout with a trailing slice *)
Example C10_bind_example :
  let p1 := {| a_fid := 1; a_name := []; a_desc := []; a_req := (-1)%Z; a_max := (-1)%Z; a_ty := TScalar KString; a_base := [] |} in
  let p2 := {| a_fid := 2; a_name := []; a_desc := []; a_req := (-1)%Z; a_max := (-1)%Z; a_ty := TSlice (TScalar KString); a_base := [] |} in
  bind_spec [p1; p2] [s2l "a"; s2l "b"; s2l "c"] = ([(p1, s2l "a"); (p2, s2l "b"); (p2, s2l "c")], []).
Proof. reflexivity. Qed.

(* ---- added by bin/mkprops (batch 2) ---- *)
From GoFlags Require Import Base.Str Base.Utf8 Golib.Strings Golib.Strconv Model.Types Model.Tag Model.Scan Model.Lookup Model.Convert Model.State Model.Closest Model.Help Model.Parse Model.Ini Model.Complete.
From GoFlags Require Import Proofs.PositionalSpec.

(* END TO END: on a command line mixing option occurrences (any spelling) and plain words, the plain words fill the positional fields in declaration order (each converted to its field type, the trailing slice absorbing the rest, the surplus becoming remaining arguments) and the options are set as their fold - independently *)
Theorem C10_loop_binds_positionals_in_declaration_order :
  forall (cfg : pconfig) (orc : oracles) (root : command) (ht : rt -> str) (toks : list str)
           (items : list item) (fuel : nat) (s : pst) (r : rt) (s' : pst) (r' : rt),
         mixed cfg (ps_lk s) toks items ->
         ps_args s = toks ->
         (Datatypes.length toks < fuel)%nat ->
         cmd_subs (cur_cmd root s) = [] ->
         po_passafter (pc_opts cfg) = false ->
         (forall (oc : octx) (a : option str),
          In (oc, a) (occs items) -> ~ In (o_fid (oc_opt oc)) (map a_fid (ps_pos s))) ->
         ps_err s = None ->
         run_loop cfg orc root ht fuel s r = Ok (s', r') ->
         ps_err s' = None ->
         let B := fst (ArgsSpec.bind_spec (ps_pos s) (words items)) in
         exists rp ro : rt,
           bound orc B r = Some rp /\
           rp = fold_left (ArgsSpec.store_binding orc) B r /\
           (forall k : nat, In k (map a_fid (ps_pos s)) -> rt_vals r' k = rt_vals rp k) /\
           ps_ret s' = ps_ret s ++ snd (ArgsSpec.bind_spec (ps_pos s) (words items)) /\
           ps_pos s' = ArgsSpec.queue_after (ps_pos s) (words items) /\
           DenoteSpec.denote orc (pc_nsdelim cfg) ht (occs items) r = Ok (ro, None) /\
           (forall k : nat, ~ In k (map a_fid (ps_pos s)) -> rt_vals r' k = rt_vals ro k) /\
           (forall k : nat, rt_fl r' k = rt_fl ro k) /\
           rt_active r' = rt_active ro /\
           rt_logs r' = rt_logs ro /\
           (forall k : nat,
            ~ In k (map a_fid (ps_pos s)) ->
            (forall (oc : octx) (a : option str), In (oc, a) (occs items) -> o_fid (oc_opt oc) <> k) ->
            rt_vals r' k = rt_vals r k /\ rt_fl r' k = rt_fl r k) /\
           ps_args s' = [] /\ ps_arg s' = last toks (ps_arg s) /\ ps_cmd s' = ps_cmd s /\ ps_lk s' = ps_lk s.
Proof. exact @C10_loop_binds_in_order. Qed.
Print Assumptions C10_loop_binds_positionals_in_declaration_order.

Theorem C10_loop_binds_positionals_general_context :
  forall (cfg : pconfig) (orc : oracles) (root : command) (ht : rt -> str) (toks : list str)
           (items : list item) (fuel : nat) (s : pst) (r : rt) (s' : pst) (r' : rt),
         mixed cfg (ps_lk s) toks items ->
         ps_args s = toks ->
         (Datatypes.length toks < fuel)%nat ->
         po_passafter (pc_opts cfg) = false ->
         arg_context (cur_cmd root s) (ps_lk s) (ps_pos s) (ps_ret s) (words items) ->
         (forall (oc : octx) (a : option str),
          In (oc, a) (occs items) -> ~ In (o_fid (oc_opt oc)) (map a_fid (ps_pos s))) ->
         ps_err s = None ->
         run_loop cfg orc root ht fuel s r = Ok (s', r') ->
         ps_err s' = None ->
         let B := fst (ArgsSpec.bind_spec (ps_pos s) (words items)) in
         exists rp ro : rt,
           bound orc B r = Some rp /\
           rp = fold_left (ArgsSpec.store_binding orc) B r /\
           (forall k : nat, In k (map a_fid (ps_pos s)) -> rt_vals r' k = rt_vals rp k) /\
           ps_ret s' = ps_ret s ++ snd (ArgsSpec.bind_spec (ps_pos s) (words items)) /\
           ps_pos s' = ArgsSpec.queue_after (ps_pos s) (words items) /\
           DenoteSpec.denote orc (pc_nsdelim cfg) ht (occs items) r = Ok (ro, None) /\
           (forall k : nat, ~ In k (map a_fid (ps_pos s)) -> rt_vals r' k = rt_vals ro k) /\
           (forall k : nat, rt_fl r' k = rt_fl ro k) /\
           rt_active r' = rt_active ro /\
           rt_logs r' = rt_logs ro /\
           (forall k : nat,
            ~ In k (map a_fid (ps_pos s)) ->
            (forall (oc : octx) (a : option str), In (oc, a) (occs items) -> o_fid (oc_opt oc) <> k) ->
            rt_vals r' k = rt_vals r k /\ rt_fl r' k = rt_fl r k) /\
           ps_args s' = [] /\ ps_arg s' = last toks (ps_arg s) /\ ps_cmd s' = ps_cmd s /\ ps_lk s' = ps_lk s.
Proof. exact @C10_loop_binds_in_order_gen. Qed.
Print Assumptions C10_loop_binds_positionals_general_context.

Theorem C10_run_succeeds_iff_conversions_succeed :
  forall (cfg : pconfig) (orc : oracles) (root : command) (ht : rt -> str) (toks : list str)
           (items : list item) (fuel : nat) (s : pst) (r rp ro : rt),
         mixed cfg (ps_lk s) toks items ->
         ps_args s = toks ->
         (Datatypes.length toks < fuel)%nat ->
         po_passafter (pc_opts cfg) = false ->
         arg_context (cur_cmd root s) (ps_lk s) (ps_pos s) (ps_ret s) (words items) ->
         (forall (oc : octx) (a : option str),
          In (oc, a) (occs items) -> ~ In (o_fid (oc_opt oc)) (map a_fid (ps_pos s))) ->
         bound orc (fst (ArgsSpec.bind_spec (ps_pos s) (words items))) r = Some rp ->
         DenoteSpec.denote orc (pc_nsdelim cfg) ht (occs items) r = Ok (ro, None) ->
         exists (s' : pst) (r' : rt),
           run_loop cfg orc root ht fuel s r = Ok (s', r') /\
           ps_err s' = ps_err s /\
           reached s toks [] (words items) s' /\ rt_split (fun k : nat => In k (map a_fid (ps_pos s))) r' rp ro.
Proof. exact @C10_loop_binds_in_order_conv. Qed.
Print Assumptions C10_run_succeeds_iff_conversions_succeed.

(* two command lines with the same plain words and the same option occurrences, interleaved in any way, give the same fields, flags, logs and remaining arguments *)
Theorem C10_interleaving_with_options_is_irrelevant :
  forall (cfg : pconfig) (orc : oracles) (root : command) (ht : rt -> str) (toks1 toks2 : list str)
           (items1 items2 : list item) (fuel1 fuel2 : nat) (s1 s2 : pst) (r : rt) (s1' s2' : pst)
           (r1' r2' : rt),
         words items1 = words items2 ->
         occs items1 = occs items2 ->
         ps_lk s1 = ps_lk s2 ->
         ps_pos s1 = ps_pos s2 ->
         ps_ret s1 = ps_ret s2 ->
         ps_cmd s1 = ps_cmd s2 ->
         mixed cfg (ps_lk s1) toks1 items1 ->
         mixed cfg (ps_lk s2) toks2 items2 ->
         ps_args s1 = toks1 ->
         ps_args s2 = toks2 ->
         (Datatypes.length toks1 < fuel1)%nat ->
         (Datatypes.length toks2 < fuel2)%nat ->
         cmd_subs (cur_cmd root s1) = [] ->
         po_passafter (pc_opts cfg) = false ->
         (forall (oc : octx) (a : option str),
          In (oc, a) (occs items1) -> ~ In (o_fid (oc_opt oc)) (map a_fid (ps_pos s1))) ->
         ps_err s1 = None ->
         ps_err s2 = None ->
         run_loop cfg orc root ht fuel1 s1 r = Ok (s1', r1') ->
         ps_err s1' = None ->
         run_loop cfg orc root ht fuel2 s2 r = Ok (s2', r2') ->
         ps_err s2' = None ->
         (forall k : nat, rt_vals r1' k = rt_vals r2' k) /\
         (forall k : nat, rt_fl r1' k = rt_fl r2' k) /\
         rt_active r1' = rt_active r2' /\
         rt_logs r1' = rt_logs r2' /\
         ps_ret s1' = ps_ret s2' /\
         ps_pos s1' = ps_pos s2' /\
         ps_cmd s1' = ps_cmd s2' /\ ps_lk s1' = ps_lk s2' /\ ps_args s1' = ps_args s2'.
Proof. exact @C10_interleaving_irrelevant. Qed.
Print Assumptions C10_interleaving_with_options_is_irrelevant.

(* after `--` every token, whatever it looks like, continues the positional binding and sets no option *)
Theorem C10_after_the_terminator_everything_is_positional :
  forall (cfg : pconfig) (orc : oracles) (root : command) (ht : rt -> str) (pre : list str)
           (items : list item) (tail : list str) (fuel : nat) (s : pst) (r : rt) (s' : pst) 
           (r' : rt),
         po_passdd (pc_opts cfg) = true ->
         mixed cfg (ps_lk s) pre items ->
         ps_args s = pre ++ s2l "--" :: tail ->
         (Datatypes.length pre < fuel)%nat ->
         cmd_subs (cur_cmd root s) = [] ->
         po_passafter (pc_opts cfg) = false ->
         (forall (oc : octx) (a : option str),
          In (oc, a) (occs items) -> ~ In (o_fid (oc_opt oc)) (map a_fid (ps_pos s))) ->
         ps_err s = None ->
         run_loop cfg orc root ht fuel s r = Ok (s', r') ->
         ps_err s' = None ->
         let P := fun k : nat => In k (map a_fid (ps_pos s)) in
         let W := words items ++ tail in
         exists (sm : pst) (rm : rt) (sa : pst) (rp0 rp ro : rt),
           reached s pre (s2l "--" :: tail) (words items) sm /\
           bound orc (fst (ArgsSpec.bind_spec (ps_pos s) (words items))) r = Some rp0 /\
           DenoteSpec.denote orc (pc_nsdelim cfg) ht (occs items) r = Ok (ro, None) /\
           rt_split P rm rp0 ro /\
           add_args orc tail (ps_with_args sm (s2l "--") tail) rm = Ok (sa, r', None) /\
           s' = ps_with_args sa (s2l "--") tail /\
           bound orc (fst (ArgsSpec.bind_spec (ps_pos s) W)) r = Some rp /\
           rt_split P r' rp ro /\
           ps_ret s' = ps_ret s ++ snd (ArgsSpec.bind_spec (ps_pos s) W) /\
           ps_pos s' = ArgsSpec.queue_after (ps_pos s) W /\
           ps_args s' = tail /\ ps_arg s' = s2l "--" /\ ps_cmd s' = ps_cmd s /\ ps_lk s' = ps_lk s.
Proof. exact @C10_after_terminator_everything_is_positional. Qed.
Print Assumptions C10_after_the_terminator_everything_is_positional.

Theorem C10_failed_conversion_stops_the_loop :
  forall (cfg : pconfig) (orc : oracles) (root : command) (ht : rt -> str) (pre : list str)
           (items : list item) (w : str) (rest : list str) (fuel : nat) (s : pst) (r rp ro : rt) 
           (p : arg) (q : list arg) (v : value) (m : str),
         mixed cfg (ps_lk s) pre items ->
         plain_word cfg w ->
         ps_args s = pre ++ w :: rest ->
         (Datatypes.length pre < fuel)%nat ->
         cmd_subs (cur_cmd root s) = [] ->
         po_passafter (pc_opts cfg) = false ->
         (forall (oc : octx) (a : option str),
          In (oc, a) (occs items) -> ~ In (o_fid (oc_opt oc)) (map a_fid (ps_pos s))) ->
         bound orc (fst (ArgsSpec.bind_spec (ps_pos s) (words items))) r = Some rp ->
         DenoteSpec.denote orc (pc_nsdelim cfg) ht (occs items) r = Ok (ro, None) ->
         ArgsSpec.queue_after (ps_pos s) (words items) = p :: q ->
         convert orc (a_base p) w (a_ty p) (rt_vals rp (a_fid p)) = Ok (v, Some m) ->
         exists (s' : pst) (r' : rt),
           run_loop cfg orc root ht fuel s r = Ok (s', r') /\
           ps_err s' = Some (EForeign m) /\
           ps_args s' = rest /\
           ps_arg s' = w /\
           ps_pos s' = p :: q /\
           ps_ret s' = ps_ret s ++ snd (ArgsSpec.bind_spec (ps_pos s) (words items)) /\
           ps_cmd s' = ps_cmd s /\
           ps_lk s' = ps_lk s /\
           rt_vals r' (a_fid p) = v /\
           (forall k : nat, In k (map a_fid (ps_pos s)) -> k <> a_fid p -> rt_vals r' k = rt_vals rp k) /\
           same_but (fun k : nat => In k (map a_fid (ps_pos s))) r' ro.
Proof. exact @C10_conversion_failure_stops. Qed.
Print Assumptions C10_failed_conversion_stops_the_loop.

Theorem C10_scalar_fields_take_the_first_words :
  forall (scal : list arg) (ws : list str),
         Forall (fun p : arg => is_slice (a_ty p) = false) scal ->
         ArgsSpec.bind_spec scal ws = (combine scal ws, skipn (Datatypes.length scal) ws) /\
         ArgsSpec.queue_after scal ws = skipn (Datatypes.length ws) scal.
Proof. exact @bind_spec_scalars. Qed.
Print Assumptions C10_scalar_fields_take_the_first_words.

Theorem C10_trailing_slice_absorbs_the_rest :
  forall (scal : list arg) (sl : arg) (ws : list str),
         Forall (fun p : arg => is_slice (a_ty p) = false) scal ->
         is_slice (a_ty sl) = true ->
         ArgsSpec.bind_spec (scal ++ [sl]) ws =
         (combine scal ws ++ map (pair sl) (skipn (Datatypes.length scal) ws), []) /\
         ArgsSpec.queue_after (scal ++ [sl]) ws = skipn (Datatypes.length ws) scal ++ [sl].
Proof. exact @bind_spec_trailing_slice. Qed.
Print Assumptions C10_trailing_slice_absorbs_the_rest.

