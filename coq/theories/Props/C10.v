(* C10 - Positional arguments bind in declaration order.  Statements only. *)
From GoFlags Require Import Base.Str Model.Types Model.State Model.Parse Proofs.ArgsSpec.
Open Scope N_scope.

(* [bind_spec] (Proofs/ArgsSpec.v) is the independent specification: tokens are
   assigned to the declared positional fields in declaration order, a trailing
   slice field absorbs all further tokens, tokens beyond the declared fields are
   left over.  A successful addArgs stores exactly the conversions of the bound
   tokens, in order, and appends exactly the left-over tokens. *)
Theorem C10_binding : forall orc toks s r s' r',
  add_args orc toks s r = Ok (s', r', None) ->
  ps_ret s' = ps_ret s ++ snd (bind_spec (ps_pos s) toks) /\
  ps_pos s' = queue_after (ps_pos s) toks /\
  r' = fold_left (store_binding orc) (fst (bind_spec (ps_pos s) toks)) r /\
  ps_args s' = ps_args s /\ ps_arg s' = ps_arg s /\ ps_err s' = ps_err s /\ ps_cmd s' = ps_cmd s.
Proof. exact add_args_spec. Qed.
Print Assumptions C10_binding.

(* options interleaved between the plain tokens do not disturb the binding: binding
   a ++ b in one call equals binding a, then b *)
Theorem C10_interleaving : forall orc a b s r,
  add_args orc (a ++ b) s r =
  match add_args orc a s r with
  | Ok (s1, r1, None) => add_args orc b s1 r1
  | other => other
  end.
Proof. exact add_args_app. Qed.
Print Assumptions C10_interleaving.

(* a token that does not convert stops the parse with that (foreign) error recorded *)
Theorem C10_conversion_failure : forall orc toks s r s' r' e,
  add_args orc toks s r = Ok (s', r', Some e) -> ps_err s' = Some e /\ exists m, e = EForeign m.
Proof. exact add_args_error. Qed.
Print Assumptions C10_conversion_failure.

(* non-vacuity: a two-field layout with a trailing slice *)
Example C10_bind_example :
  let p1 := {| a_fid := 1; a_name := []; a_desc := []; a_req := (-1)%Z; a_max := (-1)%Z; a_ty := TScalar KString; a_base := [] |} in
  let p2 := {| a_fid := 2; a_name := []; a_desc := []; a_req := (-1)%Z; a_max := (-1)%Z; a_ty := TSlice (TScalar KString); a_base := [] |} in
  bind_spec [p1; p2] [s2l "a"; s2l "b"; s2l "c"] = ([(p1, s2l "a"); (p2, s2l "b"); (p2, s2l "c")], []).
Proof. reflexivity. Qed.
