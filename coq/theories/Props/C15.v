(* C15 - Outcomes are deterministic.
   Statements only: each theorem re-states a lemma of Proofs.CompleteSpec verbatim and is closed by [exact]. *)
From GoFlags Require Import Base.Str Base.Utf8 Golib.Strings Golib.Strconv Model.Types Model.Tag Model.Scan Model.Lookup Model.Convert Model.State Model.Closest Model.Help Model.Parse Model.Ini Model.Complete.
From GoFlags Require Import Proofs.CompleteSpec.
Open Scope N_scope.

(* whatever order the runtime's map iteration delivers the items in, the sorted result is the same *)
Theorem C15_sorted_output_order_independent :
  (forall (A : Type) (key : A -> str) (l1 l2 : list A),
          Permutation.Permutation l1 l2 -> NoDup (map key l1) -> sort_by key l1 = sort_by key l2) /\
         (forall l1 l2 : list str, Permutation.Permutation l1 l2 -> sort_strs l1 = sort_strs l2).
Proof. exact @C15_sort_permutation_invariant. Qed.
Print Assumptions C15_sorted_output_order_independent.

Theorem C15_sort_is_sorted_permutation :
  forall (A : Type) (key : A -> str) (l : list A),
         Sorted.StronglySorted (fun x y : A => str_ltb (key y) (key x) = false) (sort_by key l) /\
         Sorted.Sorted (fun x y : A => str_ltb (key y) (key x) = false) (sort_by key l) /\
         Permutation.Permutation (sort_by key l) l.
Proof. exact @sort_by_sorted. Qed.
Print Assumptions C15_sort_is_sorted_permutation.

Theorem C15_completion_sorted :
  forall (cfg : pconfig) (root : command) (args : list str),
         Sorted.StronglySorted (fun x y : str * str => str_ltb (fst y) (fst x) = false)
           (complete cfg root args) /\
         Sorted.Sorted (fun x y : str * str => str_ltb (fst y) (fst x) = false) (complete cfg root args).
Proof. exact @C18_sorted. Qed.
Print Assumptions C15_completion_sorted.

(* ---- added by bin/mkprops (batch 2) ---- *)
From GoFlags Require Import Base.Str Base.Utf8 Golib.Strings Golib.Strconv Model.Types Model.Tag Model.Scan Model.Lookup Model.Convert Model.State Model.Closest Model.Help Model.Parse Model.Ini Model.Complete.
From GoFlags Require Import Proofs.DetSpec.

(* the text of a map value does not depend on the order in which the runtime enumerates its entries *)
Theorem C15_map_text_independent_of_entry_order :
  forall (orc : oracles) (base : str) (k vk : kind) (n n' : bool) (l l' : list (value * value)),
         Permutation.Permutation l l' ->
         entries_render orc base k vk l ->
         convert_to_string orc base (TMap k vk) (VMap n l) =
         convert_to_string orc base (TMap k vk) (VMap n' l').
Proof. exact @C15_map_text_order_independent. Qed.
Print Assumptions C15_map_text_independent_of_entry_order.

Theorem C15_help_default_independent_of_entry_order :
  forall (orc : oracles) (oc : octx) (r r' : rt) (k vk : kind) (n : bool) (l l' : list (value * value)),
         o_ty (oc_opt oc) = TMap k vk ->
         rt_vals r (o_fid (oc_opt oc)) = VMap n l ->
         rt_vals r' (o_fid (oc_opt oc)) = VMap n l' ->
         Permutation.Permutation l l' ->
         entries_render orc (o_base (oc_opt oc)) k vk l ->
         exists d : str,
           opt_update_default_literal orc oc r =
           Ok (set_fl r (o_fid (oc_opt oc)) (with_deflit (rt_fl r (o_fid (oc_opt oc))) d)) /\
           opt_update_default_literal orc oc r' =
           Ok (set_fl r' (o_fid (oc_opt oc)) (with_deflit (rt_fl r' (o_fid (oc_opt oc))) d)).
Proof. exact @C15_default_literal_order_independent. Qed.
Print Assumptions C15_help_default_independent_of_entry_order.

Theorem C15_ini_option_text_independent_of_entry_order :
  forall (orc : oracles) (include_defaults comment_defaults include_comments : bool) 
           (o : opt) (r r' : rt) (k vk : kind) (n : bool) (l l' : list (value * value)),
         o_ty o = TMap k vk ->
         rt_fl r (o_fid o) = rt_fl r' (o_fid o) ->
         rt_vals r (o_fid o) = VMap n l ->
         rt_vals r' (o_fid o) = VMap n l' ->
         Permutation.Permutation l l' ->
         entries_render orc (o_base o) k vk l ->
         distinct_ini_keys orc (o_base o) k l ->
         write_opt orc include_defaults comment_defaults include_comments o r =
         write_opt orc include_defaults comment_defaults include_comments o r'.
Proof. exact @C15_write_opt_map_order_independent. Qed.
Print Assumptions C15_ini_option_text_independent_of_entry_order.

(* the whole INI output is the same for two states that differ only in the enumeration order of map values *)
Theorem C15_ini_output_independent_of_entry_order :
  forall (orc : oracles) (include_defaults comment_defaults include_comments : bool) 
           (root : command) (r r' : rt),
         rt_perm_eq orc root r r' ->
         write_ini orc include_defaults comment_defaults include_comments root r =
         write_ini orc include_defaults comment_defaults include_comments root r'.
Proof. exact @C15_write_ini_map_order_independent. Qed.
Print Assumptions C15_ini_output_independent_of_entry_order.

Theorem C15_map_equality_independent_of_entry_order :
  forall (na nb : bool) (la la' lb lb' : list (value * value)),
         Permutation.Permutation la la' ->
         Permutation.Permutation lb lb' -> veq (VMap na la) (VMap nb lb) = veq (VMap na la') (VMap nb lb').
Proof. exact @C15_value_equality_order_independent. Qed.
Print Assumptions C15_map_equality_independent_of_entry_order.

Theorem C15_map_equality_spec :
  forall (na nb : bool) (la lb : list (value * value)),
         veq (VMap na la) (VMap nb lb) = true <->
         na = nb /\
         Datatypes.length la = Datatypes.length lb /\
         (forall ka va : value,
          In (ka, va) la ->
          exists kb vb : value, In (kb, vb) lb /\ value_eqb 7 ka kb = true /\ value_eqb 7 va vb = true).
Proof. exact @veq_map_spec. Qed.
Print Assumptions C15_map_equality_spec.

Theorem C15_is_default_independent_of_entry_order :
  forall (orc : oracles) (o : opt) (r r' : rt) (n : bool) (l l' : list (value * value)),
         rt_vals r (o_fid o) = VMap n l ->
         rt_vals r' (o_fid o) = VMap n l' ->
         Permutation.Permutation l l' -> opt_value_is_default orc o r = opt_value_is_default orc o r'.
Proof. exact @C15_value_is_default_order_independent. Qed.
Print Assumptions C15_is_default_independent_of_entry_order.

Theorem C15_lookup_independent_of_iteration_order :
  forall (A : Type) (l l' : list (str * A)) (k : str), same_map l l' -> find_last l k = find_last l' k.
Proof. exact @C15_find_last_order_independent. Qed.
Print Assumptions C15_lookup_independent_of_iteration_order.

(* completion output does not depend on the iteration order of the lookup maps *)
Theorem C15_completion_independent_of_lookup_order :
  forall (lk lk' : lookup) (prefix m : str) (short : bool),
         same_map (lk_long lk) (lk_long lk') ->
         same_map (lk_short lk) (lk_short lk') ->
         short_keys_one_rune lk ->
         long_keys_nonempty lk ->
         sort_by (fun it : str * str => fst it) (complete_option_names lk prefix m short) =
         sort_by (fun it : str * str => fst it) (complete_option_names lk' prefix m short).
Proof. exact @C15_completion_lookup_order_independent_keys. Qed.
Print Assumptions C15_completion_independent_of_lookup_order.

Theorem C15_completion_items_distinct :
  forall (delim : str) (root : command) (path : list nat) (prefix m : str) (short : bool),
         NoDup (map fst (complete_option_names (make_lookup delim root path) prefix m short)).
Proof. exact @C15_completion_make_lookup_texts_distinct. Qed.
Print Assumptions C15_completion_items_distinct.

Theorem C15_command_completion_independent_of_order :
  forall (c c' : command) (m : str),
         Permutation.Permutation (cmd_subs c) (cmd_subs c') ->
         NoDup (map fst (complete_commands c m)) ->
         sort_by (fun it : str * str => fst it) (complete_commands c m) =
         sort_by (fun it : str * str => fst it) (complete_commands c' m).
Proof. exact @C15_completion_commands_order_independent. Qed.
Print Assumptions C15_command_completion_independent_of_order.

Theorem C15_unknown_command_message_independent_of_order :
  forall (root : command) (s : pst) (root' : command) (s' : pst),
         Permutation.Permutation (cmd_subs (cur_cmd root s)) (cmd_subs (cur_cmd root' s')) ->
         ps_ret s = ps_ret s' -> estimate_command root s = estimate_command root' s'.
Proof. exact @C15_unknown_command_message_order_independent. Qed.
Print Assumptions C15_unknown_command_message_independent_of_order.

