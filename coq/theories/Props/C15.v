(* C15 - Outcomes are deterministic.
   Statements only: each theorem re-states a lemma of Proofs.CompleteSpec verbatim and is closed by [exact]. *)
From GoFlags Require Import Base.Str Base.Utf8 Golib.Strings Golib.Strconv Model.Types Model.Tag Model.Scan Model.Lookup Model.Convert Model.State Model.Closest Model.Help Model.Parse Model.Ini Model.Complete.
From GoFlags Require Import Proofs.CompleteSpec.
Open Scope N_scope.

(* whatever order the runtime's map iteration delivers the items in, the sorted result is the same *)
Theorem C15_sorted_output_order_independent :
  (forall (A : Type) (key : A -> str) (l1 l2 : list A),
          Permutation.Permutation l1 l2 -> NoDup (map key l1) -> sort_by key l1 = sort_by key l2) /\
         (forall l1 l2 : list str, Permutation.Permutation l1 l2 -> sort_strs l1 = sort_strs l2).
Proof. exact C15_sort_permutation_invariant. Qed.
Print Assumptions C15_sorted_output_order_independent.

Theorem C15_sort_is_sorted_permutation :
  forall (A : Type) (key : A -> str) (l : list A),
         Sorted.StronglySorted (fun x y : A => str_ltb (key y) (key x) = false) (sort_by key l) /\
         Sorted.Sorted (fun x y : A => str_ltb (key y) (key x) = false) (sort_by key l) /\
         Permutation.Permutation (sort_by key l) l.
Proof. exact sort_by_sorted. Qed.
Print Assumptions C15_sort_is_sorted_permutation.

Theorem C15_completion_sorted :
  forall (cfg : pconfig) (root : command) (args : list str),
         Sorted.StronglySorted (fun x y : str * str => str_ltb (fst y) (fst x) = false)
           (complete cfg root args) /\
         Sorted.Sorted (fun x y : str * str => str_ltb (fst y) (fst x) = false) (complete cfg root args).
Proof. exact C18_sorted. Qed.
Print Assumptions C15_completion_sorted.

