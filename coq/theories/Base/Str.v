(* Byte strings: a Go string is a sequence of bytes, modelled as [list N].
   Definitions only (plus decidable-equality specs used everywhere). *)
From Coq Require Export String Ascii.
From Coq Require Export List NArith ZArith Bool Lia.
Export ListNotations.
Open Scope N_scope.

Definition str := list N.
Definition rune := N.

Fixpoint s2l (s : String.string) : str :=
  match s with
  | String.EmptyString => []
  | String.String a s' => Ascii.N_of_ascii a :: s2l s'
  end.
Arguments s2l s%string.

Fixpoint str_eqb (a b : str) : bool :=
  match a, b with
  | [], [] => true
  | x :: a', y :: b' => N.eqb x y && str_eqb a' b'
  | _, _ => false
  end.

Lemma str_eqb_spec a b : reflect (a = b) (str_eqb a b).
Proof.
  revert b; induction a as [|x a IH]; intros [|y b]; simpl; try (constructor; congruence).
  destruct (N.eqb_spec x y) as [->|Hn]; simpl.
  - destruct (IH b) as [->|Hn]; constructor; congruence.
  - constructor; congruence.
Qed.

Lemma str_eqb_eq a b : str_eqb a b = true <-> a = b.
Proof. destruct (str_eqb_spec a b); split; congruence. Qed.

Lemma str_eqb_refl a : str_eqb a a = true.
Proof. apply str_eqb_eq; reflexivity. Qed.

(* lexicographic byte order: Go's [<] on strings *)
Fixpoint str_ltb (a b : str) : bool :=
  match a, b with
  | [], [] => false
  | [], _ :: _ => true
  | _ :: _, [] => false
  | x :: a', y :: b' => if N.ltb x y then true else if N.ltb y x then false else str_ltb a' b'
  end.
Definition str_leb (a b : str) : bool := negb (str_ltb b a).

Fixpoint has_prefix (s p : str) : bool :=
  match p, s with
  | [], _ => true
  | y :: p', x :: s' => N.eqb x y && has_prefix s' p'
  | _ :: _, [] => false
  end.

Definition has_suffix (s p : str) : bool := has_prefix (rev s) (rev p).

Definition len (s : str) : N := N.of_nat (length s).

(* strings.Index for a one-byte separator; returns offset *)
Fixpoint index_byte (s : str) (c : N) : option nat :=
  match s with
  | [] => None
  | x :: s' => if N.eqb x c then Some O else option_map S (index_byte s' c)
  end.

(* split at first occurrence of byte c: (before, Some after) or (s, None) *)
Fixpoint cut_byte (s : str) (c : N) : str * option str :=
  match s with
  | [] => ([], None)
  | x :: s' => if N.eqb x c then ([], Some s')
               else let '(a, b) := cut_byte s' c in (x :: a, b)
  end.

(* strings.Index(s, sep) for arbitrary sep *)
Fixpoint index_str (s sep : str) : option nat :=
  if has_prefix s sep then Some O else
  match s with
  | [] => None
  | _ :: s' => option_map S (index_str s' sep)
  end.

(* strings.Split(s, sep) for non-empty sep, with fuel = length s + 1 *)
Fixpoint split_fuel (fuel : nat) (s sep cur : str) : list str :=
  match fuel with
  | O => [rev cur ++ s]
  | S f =>
    match s with
    | [] => [rev cur]
    | x :: s' => if has_prefix s sep then rev cur :: split_fuel f (skipn (length sep) s) sep []
                 else split_fuel f s' sep (x :: cur)
    end
  end.
(* Go: Split with sep="" explodes into UTF-8 sequences; not used by go-flags with
   empty sep except env-delim "" which is guarded by the caller. *)
Definition split (s sep : str) : list str := split_fuel (S (length s)) s sep [].

Fixpoint join (l : list str) (sep : str) : str :=
  match l with
  | [] => []
  | [a] => a
  | a :: l' => a ++ sep ++ join l' sep
  end.

Fixpoint repeat_str (s : str) (n : nat) : str :=
  match n with O => [] | S n' => s ++ repeat_str s n' end.

Definition spaces (n : nat) : str := repeat 32 n.

(* insertion sort on strings (sort.Strings; stable, result unique for a total order) *)
Fixpoint insert_str (x : str) (l : list str) : list str :=
  match l with
  | [] => [x]
  | y :: l' => if str_ltb y x then y :: insert_str x l' else if str_ltb x y then x :: l else y :: insert_str x l'
  end.
Definition sort_strs (l : list str) : list str := fold_right insert_str [] l.
(* NOTE: insert_str keeps equal elements (they are equal strings, so order among
   them is unobservable). *)

(* generic insertion sort by a string key, stable *)
Section SortBy.
  Context {A : Type} (key : A -> str).
  Fixpoint insert_by (x : A) (l : list A) : list A :=
    match l with
    | [] => [x]
    | y :: l' => if str_ltb (key x) (key y) then x :: l else y :: insert_by x l'
    end.
  Definition sort_by (l : list A) : list A := fold_right insert_by [] l.
End SortBy.

Definition is_space_ascii (c : N) : bool :=
  orb (N.eqb c 32) (orb (N.leb 9 c && N.leb c 13) false).

(* decimal rendering of naturals / integers (fmt %d) *)
Fixpoint digits_fuel (fuel : nat) (n : N) (acc : str) : str :=
  match fuel with
  | O => acc
  | S f => let d := 48 + n mod 10 in
           if N.ltb n 10 then d :: acc else digits_fuel f (n / 10) (d :: acc)
  end.
Definition dec_of_N (n : N) : str := digits_fuel (S (N.to_nat (N.log2 n))) n [].
Definition dec_of_Z (z : Z) : str :=
  match z with
  | Z0 => [48]
  | Zpos p => dec_of_N (Npos p)
  | Zneg p => 45 :: dec_of_N (Npos p)
  end.

(* hex rendering used by the observation format *)
Definition hexdig (n : N) : N := if N.ltb n 10 then 48 + n else 87 + n.
Fixpoint hex_of_str (s : str) : str :=
  match s with
  | [] => []
  | c :: s' => hexdig (c / 16) :: hexdig (c mod 16) :: hex_of_str s'
  end.

Definition unhexdig (c : N) : N :=
  if N.leb 48 c && N.leb c 57 then c - 48 else if N.leb 97 c && N.leb c 102 then c - 87 else 0.
Fixpoint str_of_hex (h : str) : str :=
  match h with
  | a :: b :: h' => (16 * unhexdig a + unhexdig b) :: str_of_hex h'
  | _ => []
  end.
Definition hx (s : String.string) : str := str_of_hex (s2l s).
Arguments hx s%string.

(* back to a Coq string for printing results *)
Fixpoint l2s (l : str) : String.string :=
  match l with
  | [] => String.EmptyString
  | c :: l' => String.String (Ascii.ascii_of_N c) (l2s l')
  end.
