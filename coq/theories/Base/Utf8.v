(* unicode/utf8 as used by go-flags: DecodeRuneInString, EncodeRune (string(rune)),
   RuneLen, RuneCountInString, range-over-string.  Definitions only. *)
From GoFlags Require Import Base.Str.
Open Scope N_scope.

Definition rune_error : N := 65533. (* U+FFFD *)

Definition in_range (lo hi c : N) : bool := N.leb lo c && N.leb c hi.
Definition is_cont (c : N) : bool := in_range 128 191 c.

(* (rune, width) of the first rune of s; (rune_error, 0) for the empty string *)
Definition decode_rune (s : str) : N * nat :=
  match s with
  | [] => (rune_error, O)
  | b0 :: r =>
    if N.ltb b0 128 then (b0, 1%nat)
    else if in_range 194 223 b0 then
      match r with
      | b1 :: _ => if is_cont b1 then ((b0 mod 32) * 64 + (b1 mod 64), 2%nat) else (rune_error, 1%nat)
      | _ => (rune_error, 1%nat)
      end
    else if in_range 224 239 b0 then
      let lo := if N.eqb b0 224 then 160 else 128 in
      let hi := if N.eqb b0 237 then 159 else 191 in
      match r with
      | b1 :: b2 :: _ =>
        if in_range lo hi b1 then
          if is_cont b2 then ((b0 mod 16) * 4096 + (b1 mod 64) * 64 + (b2 mod 64), 3%nat)
          else (rune_error, 1%nat)
        else (rune_error, 1%nat)
      | _ => (rune_error, 1%nat)
      end
    else if in_range 240 244 b0 then
      let lo := if N.eqb b0 240 then 144 else 128 in
      let hi := if N.eqb b0 244 then 143 else 191 in
      match r with
      | b1 :: b2 :: b3 :: _ =>
        if in_range lo hi b1 then
          if is_cont b2 then
            if is_cont b3 then
              ((b0 mod 8) * 262144 + (b1 mod 64) * 4096 + (b2 mod 64) * 64 + (b3 mod 64), 4%nat)
            else (rune_error, 1%nat)
          else (rune_error, 1%nat)
        else (rune_error, 1%nat)
      | _ => (rune_error, 1%nat)
      end
    else (rune_error, 1%nat)
  end.

Definition is_surrogate (r : N) : bool := in_range 55296 57343 r.

(* utf8.RuneLen; None = -1 *)
Definition rune_len (r : N) : option nat :=
  if N.ltb r 128 then Some 1%nat
  else if N.ltb r 2048 then Some 2%nat
  else if is_surrogate r then None
  else if N.ltb r 65536 then Some 3%nat
  else if N.leb r 1114111 then Some 4%nat
  else None.

(* string(rune) / EncodeRune: invalid runes encode U+FFFD *)
Definition encode_rune (r : N) : str :=
  if N.ltb r 128 then [r]
  else if N.ltb r 2048 then [192 + r / 64; 128 + r mod 64]
  else if is_surrogate r || N.ltb 1114111 r then [239; 191; 189]
  else if N.ltb r 65536 then [224 + r / 4096; 128 + (r / 64) mod 64; 128 + r mod 64]
  else [240 + r / 262144; 128 + (r / 4096) mod 64; 128 + (r / 64) mod 64; 128 + r mod 64].

(* for i, c := range s : list of (byte offset, rune, width).  Fuel = length s. *)
Fixpoint range_fuel (fuel : nat) (off : nat) (s : str) : list (nat * N * nat) :=
  match fuel with
  | O => []
  | S f =>
    match s with
    | [] => []
    | _ => let '(r, w) := decode_rune s in
           (off, r, w) :: range_fuel f (off + w)%nat (skipn w s)
    end
  end.
Definition range_str (s : str) : list (nat * N * nat) := range_fuel (length s) O s.

Definition runes (s : str) : list N := map (fun x => snd (fst x)) (range_str s).
Definition rune_count (s : str) : nat := length (range_str s).

Definition valid_utf8 (s : str) : bool :=
  forallb (fun x : nat * N * nat =>
             negb (N.eqb (snd (fst x)) rune_error && Nat.eqb (snd x) 1)) (range_str s).
