(* strings / unicode functions used by go-flags: TrimSpace, ToLower, IsPrint, IsSpace.
   Definitions only. *)
From GoFlags Require Import Base.Str Base.Utf8 Golib.Tables.
Open Scope N_scope.

Definition is_print (r : N) : bool :=
  if N.ltb r 127 then N.leb 32 r
  else existsb (fun p : N * N => N.leb (fst p) r && N.leb r (snd p)) isprint_ranges.

Definition is_space (r : N) : bool := existsb (N.eqb r) isspace_runes.

Definition to_lower_rune (r : N) : N :=
  if N.ltb r 128 then (if N.leb 65 r && N.leb r 90 then r + 32 else r)
  else match find (fun p : N * N => N.eqb (fst p) r) tolower_pairs with
       | Some p => snd p
       | None => r
       end.

(* strings.ToLower: strings.Map(unicode.ToLower, s); invalid bytes become U+FFFD *)
Definition to_lower (s : str) : str := flat_map (fun r => encode_rune (to_lower_rune r)) (runes s).

(* isPrint of convert.go: every rune of range s is printable *)
Definition all_print (s : str) : bool := forallb is_print (runes s).

(* ---- TrimSpace = TrimFunc(s, unicode.IsSpace) *)
Fixpoint trim_left_fuel (fuel : nat) (s : str) : str :=
  match fuel with
  | O => s
  | S f =>
    match s with
    | [] => []
    | _ => let '(r, w) := decode_rune s in
           if is_space r then trim_left_fuel f (skipn w s) else s
    end
  end.
Definition trim_left (s : str) : str := trim_left_fuel (length s) s.

Definition rune_start (b : N) : bool := negb (N.eqb (b / 64) 2).

(* utf8.DecodeLastRuneInString *)
Definition decode_last (s : str) : N * nat :=
  let n := length s in
  match n with
  | O => (rune_error, O)
  | S m =>
    let last_b := nth m s 0 in
    if N.ltb last_b 128 then (last_b, 1%nat)
    else
      let lim := (n - 4)%nat in
      (* search start from n-2 down to lim for a rune start byte *)
      let fix back (k : nat) (cnt : nat) : option nat :=
          match cnt with
          | O => None
          | S c => if rune_start (nth k s 0) then Some k
                   else match k with O => None | S k' => if Nat.ltb k' lim then None else back k' c end
          end in
      let start :=
          match m with
          | O => O                        (* start-- gives -1 -> 0 *)
          | S m' => if Nat.ltb m' lim then (lim - 1)%nat
                    else match back m' 4%nat with
                         | Some k => k
                         | None => (lim - 1)%nat   (* loop ran out: start = lim-1, or 0 if negative *)
                         end
          end in
      let '(r, size) := decode_rune (skipn start s) in
      if Nat.eqb (start + size) n then (r, size) else (rune_error, 1%nat)
  end.

Fixpoint trim_right_fuel (fuel : nat) (s : str) : str :=
  match fuel with
  | O => s
  | S f =>
    match s with
    | [] => []
    | _ => let '(r, w) := decode_last s in
           if is_space r then trim_right_fuel f (firstn (length s - w) s) else s
    end
  end.
Definition trim_right (s : str) : str := trim_right_fuel (length s) s.

Definition trim_space (s : str) : str := trim_right (trim_left s).

(* strings.LastIndex(s, " ") *)
Fixpoint last_index_byte_aux (s : str) (c : N) (i : nat) (acc : option nat) : option nat :=
  match s with
  | [] => acc
  | x :: s' => last_index_byte_aux s' c (S i) (if N.eqb x c then Some i else acc)
  end.
Definition last_index_byte (s : str) (c : N) : option nat := last_index_byte_aux s c O None.

(* strings.SplitN(s, sep, 2) for a one-byte separator *)
Definition splitn2 (s : str) (c : N) : list str :=
  match cut_byte s c with
  | (a, Some b) => [a; b]
  | (a, None) => [a]
  end.

(* strings.Replace(s, old, new, -1) for one-byte old *)
Definition replace_byte (s : str) (c : N) (new : str) : str :=
  flat_map (fun x => if N.eqb x c then new else [x]) s.
