(* strconv as used by go-flags: ParseInt, ParseUint, ParseBool, FormatInt/FormatUint,
   Quote, Unquote, and the NumError message.  Definitions only. *)
From GoFlags Require Import Base.Str Base.Utf8 Golib.Strings.
Open Scope N_scope.

(* ------------------------------------------------------------------ Quote *)
Definition hex2 (b : N) : str := [hexdig ((b / 16) mod 16); hexdig (b mod 16)].
Definition hex4 (r : N) : str := hex2 (r / 256) ++ hex2 (r mod 256).
Definition hex8 (r : N) : str := hex4 (r / 65536) ++ hex4 (r mod 65536).

Definition bs : N := 92.  (* backslash *)
Definition dq : N := 34.  (* double quote *)

Definition escaped_rune (r : N) : str :=
  if N.eqb r dq || N.eqb r bs then [bs; r]
  else if is_print r then encode_rune r
  else if N.eqb r 7 then [bs; 97]
  else if N.eqb r 8 then [bs; 98]
  else if N.eqb r 12 then [bs; 102]
  else if N.eqb r 10 then [bs; 110]
  else if N.eqb r 13 then [bs; 114]
  else if N.eqb r 9 then [bs; 116]
  else if N.eqb r 11 then [bs; 118]
  else if N.ltb r 32 || N.eqb r 127 then bs :: 120 :: hex2 r
  else if N.ltb r 65536 then bs :: 117 :: hex4 r
  else bs :: 85 :: hex8 r.

Definition quote_body (s : str) : str :=
  flat_map (fun x : nat * N * nat =>
              let '(off, r, w) := x in
              if N.eqb r rune_error && Nat.eqb w 1 then bs :: 120 :: hex2 (nth off s 0)
              else escaped_rune r) (range_str s).
Definition quote (s : str) : str := dq :: quote_body s ++ [dq].

(* ------------------------------------------------------------------ Unquote *)
Definition unhex (c : N) : option N :=
  if N.leb 48 c && N.leb c 57 then Some (c - 48)
  else if N.leb 97 c && N.leb c 102 then Some (c - 87)
  else if N.leb 65 c && N.leb c 70 then Some (c - 55)
  else None.

Fixpoint read_hex (n : nat) (s : str) (acc : N) : option (N * str) :=
  match n with
  | O => Some (acc, s)
  | S n' => match s with
            | [] => None
            | c :: s' => match unhex c with
                         | Some d => read_hex n' s' (acc * 16 + d)
                         | None => None
                         end
            end
  end.

Definition valid_rune (r : N) : bool := (N.ltb r 55296) || (N.ltb 57343 r && N.leb r 1114111).

(* UnquoteChar(s, dquote): Some (bytes to append, rest) or None (ErrSyntax).
   The caller appends byte(r) when r < 0x80 or not multibyte, else the encoding. *)
Definition unquote_char (s : str) : option (str * str) :=
  match s with
  | [] => None
  | c :: s1 =>
    if N.eqb c dq then None
    else if N.leb 128 c then
      let '(r, w) := decode_rune s in Some (encode_rune r, skipn w s)
    else if negb (N.eqb c bs) then Some ([c], s1)
    else
      match s1 with
      | [] => None
      | e :: s2 =>
        if N.eqb e 97 then Some ([7], s2)
        else if N.eqb e 98 then Some ([8], s2)
        else if N.eqb e 102 then Some ([12], s2)
        else if N.eqb e 110 then Some ([10], s2)
        else if N.eqb e 114 then Some ([13], s2)
        else if N.eqb e 116 then Some ([9], s2)
        else if N.eqb e 118 then Some ([11], s2)
        else if N.eqb e 120 then
          match read_hex 2 s2 0 with Some (v, r) => Some ([v], r) | None => None end
        else if N.eqb e 117 then
          match read_hex 4 s2 0 with
          | Some (v, r) => if valid_rune v then Some (encode_rune v, r) else None
          | None => None end
        else if N.eqb e 85 then
          match read_hex 8 s2 0 with
          | Some (v, r) => if valid_rune v then Some (encode_rune v, r) else None
          | None => None end
        else if N.leb 48 e && N.leb e 55 then
          match s2 with
          | a :: b :: r =>
            if N.leb 48 a && N.leb a 55 && N.leb 48 b && N.leb b 55 then
              let v := (e - 48) * 64 + (a - 48) * 8 + (b - 48) in
              if N.ltb 255 v then None else Some ([v], r)
            else None
          | _ => None
          end
        else if N.eqb e bs then Some ([bs], s2)
        else if N.eqb e dq then Some ([dq], s2)
        else None    (* includes \' inside a double-quoted string *)
      end
  end.

(* body loop: returns (decoded, remainder starting at the terminating quote) *)
Fixpoint unquote_loop (fuel : nat) (s : str) (acc : str) : option (str * str) :=
  match fuel with
  | O => None
  | S f =>
    match s with
    | [] => None                                  (* no terminating quote *)
    | c :: _ =>
      if N.eqb c dq then Some (rev acc, s)
      else if N.eqb c 10 then None
      else match unquote_char s with
           | Some (bytes, rest) => unquote_loop f rest (rev bytes ++ acc)
           | None => None
           end
    end
  end.

(* strconv.Unquote restricted to inputs that start with a double quote (the only
   ones go-flags passes); for other first bytes callers never reach it. *)
Definition unquote (s : str) : option str :=
  match s with
  | c :: body =>
    if negb (N.eqb c dq) then None
    else
      match body with
      | [] => None                                 (* len < 2 *)
      | _ =>
        match index_byte body dq with
        | None => None
        | Some e =>
          let inner := firstn e body in
          let after := skipn (S e) body in
          if negb (existsb (N.eqb bs) inner) && negb (existsb (N.eqb 10) inner) && valid_utf8 inner then
            (match after with [] => Some inner | _ => None end)
          else
            match unquote_loop (S (length body)) body [] with
            | Some (out, rest) =>
              match rest with
              | [_] => Some out                      (* exactly the terminating quote left *)
              | _ => None
              end
            | None => None
            end
        end
      end
  | [] => None
  end.

Definition err_syntax : str := s2l "invalid syntax".
Definition err_range : str := s2l "value out of range".

(* ------------------------------------------------------------------ integers *)
Definition lower (c : N) : N := if N.leb 65 c && N.leb c 90 then c + 32 else c.
(* Go: lower(c) = c | 0x20, used only in comparisons against letters; agrees with
   the above on every byte that can compare equal to a letter. *)
Definition is_letter (c : N) : bool := (N.leb 65 c && N.leb c 90) || (N.leb 97 c && N.leb c 122).

Inductive num_err := NESyntax | NERange | NEBase (b : Z).

(* digit loop of ParseUint; [n] so far; returns value or error *)
Fixpoint uint_loop (s : str) (base : N) (base0 : bool) (cutoff maxval : N) (n : N) : N + num_err :=
  match s with
  | [] => inl n
  | c :: s' =>
    if N.eqb c 95 && base0 then uint_loop s' base base0 cutoff maxval n
    else
      let d := if N.leb 48 c && N.leb c 57 then Some (c - 48)
               else if is_letter c then Some (lower c - 97 + 10) else None in
      match d with
      | None => inr NESyntax
      | Some d =>
        if N.leb base d then inr NESyntax
        else if N.leb cutoff n then inr NERange
        else let n1 := n * base + d in
             if N.ltb maxval n1 then inr NERange      (* n1 < n cannot happen below cutoff; n1 > maxVal *)
             else uint_loop s' base base0 cutoff maxval n1
      end
  end.

(* underscoreOK(s0): underscores must separate digits (after optional sign/prefix) *)
Definition underscore_ok (s : str) : bool :=
  let s := match s with c :: r => if N.eqb c 45 || N.eqb c 43 then r else s | [] => s end in
  (* optional base prefix *)
  let '(s, hex, i0) :=
      match s with
      | a :: b :: r =>
        if N.eqb a 48 && (N.eqb (lower b) 98 || N.eqb (lower b) 111 || N.eqb (lower b) 120)
        then (r, N.eqb (lower b) 120, 48)   (* saw = '0': base prefix counts as a digit for "_" *)
        else (s, false, 94)
      | _ => (s, false, 94)
      end in
  (* saw: '^' (94) beginning, '0' (48) digit, '_' (95) underscore, '!' (33) other *)
  let fix go (s : str) (saw : N) : bool :=
      match s with
      | [] => negb (N.eqb saw 95)
      | c :: r =>
        if (N.leb 48 c && N.leb c 57) || (hex && N.leb 97 (lower c) && N.leb (lower c) 102)
        then go r 48
        else if N.eqb c 95 then (if N.eqb saw 48 then go r 95 else false)
        else (if N.eqb saw 95 then false else go r 33)
      end in
  go s i0.

Definition pow2 (n : N) : N := 2 ^ n.
Definition max_uint64 : N := 18446744073709551615.

(* ParseUint(s, base, bitSize); base as Z because the base tag may be anything *)
Definition parse_uint (s : str) (base : Z) (bits : N) : N + num_err :=
  match s with
  | [] => inr NESyntax
  | c0 :: _ =>
    let base0 := Z.eqb base 0 in
    let pre : option (N * str) :=
        if (2 <=? base)%Z && (base <=? 36)%Z then Some (Z.to_N base, s)
        else if base0 then
          if N.eqb c0 48 then
            match s with
            | _ :: b :: _ :: _ =>
              if N.eqb (lower b) 98 then Some (2, skipn 2 s)
              else if N.eqb (lower b) 111 then Some (8, skipn 2 s)
              else if N.eqb (lower b) 120 then Some (16, skipn 2 s)
              else Some (8, skipn 1 s)
            | _ => Some (8, skipn 1 s)
            end
          else Some (10, s)
        else None in
    match pre with
    | None => inr (NEBase base)
    | Some (b, digits) =>
      let cutoff := max_uint64 / b + 1 in
      let maxval := pow2 bits - 1 in
      match uint_loop digits b base0 cutoff maxval 0 with
      | inr e => inr e
      | inl n => if base0 && existsb (N.eqb 95) s && negb (underscore_ok s) then inr NESyntax else inl n
      end
    end
  end.

(* ParseInt(s, base, bitSize) *)
Definition parse_int (s : str) (base : Z) (bits : N) : Z + num_err :=
  match s with
  | [] => inr NESyntax
  | c :: r =>
    let '(neg, body) := if N.eqb c 43 then (false, r) else if N.eqb c 45 then (true, r) else (false, s) in
    let cutoff := pow2 (bits - 1) in
    match parse_uint body base bits with
    | inr NERange => inr NERange      (* un = maxVal >= cutoff in both signs *)
    | inr e => inr e
    | inl un =>
      if negb neg && N.leb cutoff un then inr NERange
      else if neg && N.ltb cutoff un then inr NERange
      else inl (if neg then (- Z.of_N un)%Z else Z.of_N un)
    end
  end.

(* NumError.Error(): strconv.<Func>: parsing <Quote(num)>: <err> *)
Definition num_err_text (e : num_err) : str :=
  match e with
  | NESyntax => err_syntax
  | NERange => err_range
  | NEBase b => s2l "invalid base " ++ dec_of_Z b
  end.
Definition num_error_msg (fn : str) (num : str) (e : num_err) : str :=
  s2l "strconv." ++ fn ++ s2l ": parsing " ++ quote num ++ s2l ": " ++ num_err_text e.

(* ParseBool *)
Definition parse_bool (s : str) : option bool :=
  if existsb (str_eqb s) (map s2l ["1"; "t"; "T"; "TRUE"; "true"; "True"])%string then Some true
  else if existsb (str_eqb s) (map s2l ["0"; "f"; "F"; "FALSE"; "false"; "False"])%string then Some false
  else None.

(* FormatUint / FormatInt; None = panic (illegal base) *)
Definition fmt_digit (d : N) : N := if N.ltb d 10 then 48 + d else 87 + d.
Fixpoint fmt_base_fuel (fuel : nat) (n base : N) (acc : str) : str :=
  match fuel with
  | O => acc
  | S f => let acc' := fmt_digit (n mod base) :: acc in
           if N.ltb n base then acc' else fmt_base_fuel f (n / base) base acc'
  end.
Definition format_uint (n : N) (base : Z) : option str :=
  if (2 <=? base)%Z && (base <=? 36)%Z then Some (fmt_base_fuel (S (N.to_nat (N.log2 n))) n (Z.to_N base) [])
  else None.
Definition format_int (z : Z) (base : Z) : option str :=
  match z with
  | Zneg p => option_map (cons 45) (format_uint (Npos p) base)
  | _ => format_uint (Z.to_N z) base
  end.
